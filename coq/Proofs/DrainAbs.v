(* Proofs/DrainAbs.v -- drain(range) end to end at list level: create the Drain, step it from either
   end in ANY interleaving of ANY length, let the caller take what was yielded, drop the iterator
   (ANY set of panicking destructors): the yielded values are those of the double-ended cursor over
   l[a..e), and afterwards the vector is l[..a) ++ l[e..), the yielded elements are with the caller,
   the rest of the range has been destroyed exactly once, nothing else is touched. *)
From Coq Require Import ZArith List Bool Lia Permutation.
From MV Require Import Ast Eval Scalar Machine.
From MV.Proofs Require Import Arith Logic Prim View OpsLocal Guards Grow CapHistory Drops Retain DrainIt Sentinel Core Refine.
Import ListNotations.
Open Scope Z_scope.

(* the elements among the yielded options *)
Fixpoint somes (os : list (option elem)) : list elem :=
  match os with [] => [] | Some e :: os => e :: somes os | None :: os => somes os end.

Lemma cursor_perm : forall steps w,
  Permutation (somes (fst (cursor w steps)) ++ snd (cursor w steps)) w.
Proof.
  induction steps as [|st steps IH]; intros w; [reflexivity|].
  destruct st; destruct w as [|x w']; cbn [cursor].
  - specialize (IH []). destruct (cursor [] steps) as [o r]. simpl in *. exact IH.
  - specialize (IH w'). destruct (cursor w' steps) as [o r]. simpl in *. constructor. exact IH.
  - specialize (IH []). destruct (cursor [] steps) as [o r]. simpl in *. exact IH.
  - assert (Hw : x :: w' = removelast (x :: w') ++ [last (x :: w') 0]) by (apply app_removelast_last; discriminate).
    remember (removelast (x :: w')) as rl eqn:Erl. remember (last (x :: w') 0) as y eqn:Ey.
    specialize (IH rl). destruct (cursor rl steps) as [o r]. cbn [fst snd somes app] in *.
    rewrite Hw. etransitivity; [|apply Permutation_cons_append]. constructor. exact IH.
Qed.

Lemma NoDup_app_r {A} (l1 l2 : list A) : NoDup (l1 ++ l2) -> NoDup l2.
Proof. induction l1 as [|x l1 IH]; simpl; intros H; [exact H|]. inversion H; subst. apply IH. assumption. Qed.
Lemma NoDup_app_left {A} (l1 l2 : list A) : NoDup (l1 ++ l2) -> NoDup l1.
Proof.
  induction l1 as [|x l1 IH]; simpl; intros H; [constructor|]. inversion H; subst. constructor.
  - intros Hin. apply H2. apply in_or_app. left. exact Hin.
  - apply IH. assumption.
Qed.
Lemma NoDup_app_disj {A} (l1 l2 : list A) : NoDup (l1 ++ l2) -> forall x, In x l1 -> ~ In x l2.
Proof.
  induction l1 as [|y l1 IH]; simpl; intros H x Hx Hx2; [destruct Hx|]. inversion H; subst.
  destruct Hx as [->|Hx]; [apply H2; apply in_or_app; right; exact Hx2|exact (IH H3 x Hx Hx2)].
Qed.
Lemma NoDup_remove_mid {A} (l1 l2 l3 : list A) : NoDup (l1 ++ l2 ++ l3) -> NoDup (l1 ++ l3).
Proof.
  induction l1 as [|x l1 IH]; simpl; intros H.
  - apply NoDup_app_r in H. exact H.
  - inversion H; subst. constructor; [|apply IH; assumption].
    intros Hin. apply H2. apply in_app_or in Hin. apply in_or_app. destruct Hin; [left; assumption|right; apply in_or_app; right; assumption].
Qed.

Section DrainAbs.
  Variable cfg : tcfg.
  Variable ncap : Z -> option Z.
  Hypothesis Hcfg : cfg_ok cfg.
  Hypothesis Htracked : needs_drop cfg = true.

  Local Notation vabs := (vabs cfg).

  Fixpoint hand_out_list (es : list elem) : M unit :=
    match es with [] => ret tt | e :: es => hand_out cfg e ;;; hand_out_list es end.

  Lemma hand_out_list_spec : forall es s, NoDup es -> (forall e, In e es -> ledger s e = Live) ->
    exists s', hand_out_list es s = (Val tt, s') /\ heap s' = heap s /\ vecs s' = vecs s /\
               next_elem s' = next_elem s /\
               (forall e, In e es -> ledger s' e = Out) /\ (forall e, ~ In e es -> ledger s' e = ledger s e).
  Proof.
    induction es as [|x es IH]; intros s Hnd Hlive.
    - exists s. simpl. repeat split; auto. intros e [].
    - inversion Hnd as [|? ? Hx Hnd']; subst. simpl hand_out_list.
      rewrite (bind_val _ _ _ _ _ (hand_out_live cfg Htracked s x (Hlive x (or_introl eq_refl)))).
      set (s1 := with_ledger s (upd (ledger s) x Out)).
      destruct (IH s1 Hnd') as (s' & Hr & Hh & Hv & Hn & Hin & Hout).
      { intros e He. simpl. unfold upd. destruct (Z.eqb_spec e x) as [->|_]; [contradiction|]. apply Hlive. right. exact He. }
      exists s'. split; [exact Hr|]. split; [rewrite Hh; reflexivity|]. split; [rewrite Hv; reflexivity|].
      split; [rewrite Hn; reflexivity|]. split.
      + intros e [<-|He]; [|apply Hin; exact He]. rewrite (Hout x Hx). simpl. unfold upd. rewrite Z.eqb_refl. reflexivity.
      + intros e He. rewrite Hout by (intros H; apply He; right; exact H). simpl. unfold upd.
        destruct (Z.eqb_spec e x) as [->|_]; [exfalso; apply He; left; reflexivity|reflexivity].
  Qed.

  Lemma drain_inv_same s s' d b bl off i j r :
    drain_inv cfg s d b bl off i j r -> heap s' = heap s -> vecs s' = vecs s -> drain_inv cfg s' d b bl off i j r.
  Proof.
    intros [Hv Hb Hco Hp He Hr Ho Hi] Hh Hvs. constructor; auto.
    destruct Hv as [H1 H2]. split; [rewrite Hvs; exact H1|rewrite Hh; exact H2].
  Qed.

  (* stepping keeps the fields the drop relies on *)
  Lemma drain_steps_fields : forall steps s d b bl off i j r d' out,
    drain_inv cfg s d b bl off i j r -> drain_steps cfg d steps s = (Val (out, d'), s) ->
    d_fill d' = d_fill d /\ d_vec d' = d_vec d /\ d_rem d' = d_rem d.
  Proof.
    induction steps as [|st steps IH]; intros s d b bl off i j r d' out Hinv Hs.
    - simpl in Hs. inversion Hs; subst. auto.
    - simpl drain_steps in Hs. destruct st.
      + rewrite (bind_val _ _ _ _ _ (drain_next_spec cfg Hcfg _ _ _ _ _ _ _ _ Hinv)) in Hs.
        destruct (Z.ltb_spec i j) as [L|G]; cbn [fst snd] in Hs.
        * destruct (drain_protocol cfg Hcfg steps s _ b bl off (i + 1) j r (drain_inv_front cfg _ _ _ _ _ _ _ _ Hinv L)) as (d2 & i2 & j2 & Hs2 & _).
          rewrite (bind_val _ _ _ _ _ Hs2) in Hs. cbn [fst snd ret] in Hs. inversion Hs; subst.
          destruct (IH s _ b bl off (i + 1) j r d' _ (drain_inv_front cfg _ _ _ _ _ _ _ _ Hinv L) Hs2) as (A & B & C). auto.
        * destruct (drain_protocol cfg Hcfg steps s d b bl off i j r Hinv) as (d2 & i2 & j2 & Hs2 & _).
          rewrite (bind_val _ _ _ _ _ Hs2) in Hs. cbn [fst snd ret] in Hs. inversion Hs; subst.
          exact (IH s d b bl off i j r d' _ Hinv Hs2).
      + rewrite (bind_val _ _ _ _ _ (drain_next_back_spec cfg Hcfg _ _ _ _ _ _ _ _ Hinv)) in Hs.
        destruct (Z.ltb_spec i j) as [L|G]; cbn [fst snd] in Hs.
        * destruct (drain_protocol cfg Hcfg steps s _ b bl off i (j - 1) r (drain_inv_back cfg _ _ _ _ _ _ _ _ Hinv L)) as (d2 & i2 & j2 & Hs2 & _).
          rewrite (bind_val _ _ _ _ _ Hs2) in Hs. cbn [fst snd ret] in Hs. inversion Hs; subst.
          destruct (IH s _ b bl off i (j - 1) r d' _ (drain_inv_back cfg _ _ _ _ _ _ _ _ Hinv L) Hs2) as (A & B & C). auto.
        * destruct (drain_protocol cfg Hcfg steps s d b bl off i j r Hinv) as (d2 & i2 & j2 & Hs2 & _).
          rewrite (bind_val _ _ _ _ _ Hs2) in Hs. cbn [fst snd ret] in Hs. inversion Hs; subst.
          exact (IH s d b bl off i j r d' _ Hinv Hs2).
  Qed.

  (* the whole life of a Drain *)
  Definition drain_whole (v : nat) (bs be : bound) (steps : list istep) (tmp : nat) : M (list (option elem)) :=
    d <- make_drain cfg v bs be None ;;
    r <- drain_steps cfg d steps ;;
    hand_out_list (somes (fst r)) ;;;
    drain_drop cfg ncap tmp (snd r) ;;;
    ret (fst r).

  (* l = l[..a) ++ l[a..e) ++ l[e..) *)
  Lemma three_parts {A} (l : list A) a e : (a <= e)%nat ->
    l = firstn a l ++ skipn a (firstn e l) ++ skipn e l.
  Proof.
    intros H. rewrite <- (firstn_skipn e l) at 1. rewrite <- (firstn_skipn a (firstn e l)) at 1.
    rewrite firstn_firstn. replace (Nat.min a e) with a by lia. rewrite <- app_assoc. reflexivity.
  Qed.

  Theorem drain_abs s v b bl bs be a e steps tmp :
    vec_at s v b bl -> block_ok cfg bl -> owned s bl ->
    resolve_pure bs be (h_len bl) = Some (a, e) -> 0 <= a ->
    let l := velems bl in
    let w := skipn (Z.to_nat a) (firstn (Z.to_nat e) l) in
    let Q := fun s' =>
      vabs s' v (firstn (Z.to_nat a) l ++ skipn (Z.to_nat e) l) /\
      (forall x, In x (somes (fst (cursor w steps))) -> ledger s' x = Out) /\
      (forall x, In x (snd (cursor w steps)) -> ledger s' x = Dropped) /\
      (forall x, ~ In x w -> ledger s' x = ledger s x) /\ next_elem s' = next_elem s in
    post (drain_whole v bs be steps tmp s) (fun r s' => r = fst (cursor w steps) /\ Q s') Q.
  Proof.
    intros Hv Hb Ho Hres Ha l w Q.
    pose proof Hres as Hres'. apply resolve_pure_some in Hres'. destruct Hres' as (_ & _ & Hae).
    pose proof (bo_len _ _ Hb) as Hlen.
    destruct (make_drain_spec cfg Hcfg s v b bl bs be None a e Hv Hb (ow_init _ _ Ho) Hres Ha)
      as (off & d & Hm & Hdv & Hdf & Hdr & Hinv & Hvel).
    cbv zeta in Hm, Hinv, Hvel.
    set (bl0 := with_hdr bl a (h_cap bl) (h_align bl)) in *.
    set (s0 := upd_block s b bl0) in *.
    unfold drain_whole. rewrite (bind_val _ _ _ _ _ Hm).
    destruct (drain_protocol cfg Hcfg steps s0 d b bl0 off a e e Hinv) as (d' & i' & j' & Hs & Hinv' & Hi' & Hj' & Hw').
    rewrite (bind_val _ _ _ _ _ Hs). cbn [fst snd].
    destruct (drain_steps_fields steps s0 d b bl0 off a e e d' _ Hinv Hs) as (Hf' & Hv' & Hr').
    (* the window is l[a..e), the tail l[e..) *)
    assert (Hwin : window bl0 a e = w).
    { unfold window, w, l, velems. rewrite view_firstn by lia.
      change (slots bl0) with (slots bl). apply slice_elems_view. lia. }
    assert (Htail : window bl0 e (e + d_rem d') = skipn (Z.to_nat e) l).
    { rewrite Hr', Hdr. unfold window, l, velems. change (slots bl0) with (slots bl).
      replace (e + (h_len bl - e) - e) with (h_len bl - e) by lia. apply slice_elems_view. lia. }
    rewrite Hwin in *.
    pose proof (cursor_perm steps w) as Hperm.
    destruct (cursor w steps) as [outs rest] eqn:Ec. cbn [fst snd] in *.
    assert (Hl3 : l = firstn (Z.to_nat a) l ++ w ++ skipn (Z.to_nat e) l) by (apply three_parts; lia).
    pose proof (ow_nodup _ _ Ho) as Hnd. fold l in Hnd.
    assert (Hndw : NoDup (somes outs ++ rest)).
    { eapply Permutation_NoDup; [symmetry; exact Hperm|]. rewrite Hl3 in Hnd.
      apply NoDup_app_r in Hnd. eapply NoDup_app_left. exact Hnd. }
    assert (Hinw : forall x, In x (somes outs) \/ In x rest -> In x w).
    { intros x Hx. eapply Permutation_in; [exact Hperm|]. apply in_or_app. exact Hx. }
    assert (Hwl : forall x, In x w -> In x l).
    { intros x Hx. rewrite Hl3. apply in_or_app. right. apply in_or_app. left. exact Hx. }
    assert (Hdisj : forall x, In x (firstn (Z.to_nat a) l ++ skipn (Z.to_nat e) l) -> ~ In x w).
    { intros x Hx Hxw. rewrite Hl3 in Hnd. apply in_app_or in Hx. destruct Hx as [Hx|Hx].
      - apply (NoDup_app_disj _ _ Hnd x Hx). apply in_or_app. left. exact Hxw.
      - apply NoDup_app_r in Hnd. exact (NoDup_app_disj _ _ Hnd x Hxw Hx). }
    (* the caller takes what was yielded *)
    destruct (hand_out_list_spec (somes outs) s0 (NoDup_app_left _ _ Hndw)) as (s1 & Hho & Hh1 & Hv1 & Hn1 & Hin1 & Hout1).
    { intros x Hx. simpl. apply (ow_live _ _ Ho). apply Hwl. apply Hinw. left. exact Hx. }
    rewrite (bind_val _ _ _ _ _ Hho).
    pose proof (drain_inv_same s0 s1 d' b bl0 off i' j' e Hinv' Hh1 Hv1) as Hinv1.
    unfold drain_drop. rewrite Hf', Hdf.
    assert (Hfuel : (Z.to_nat (j' - i') < window_fuel d')%nat).
    { unfold window_fuel. rewrite (di_pos _ _ _ _ _ _ _ _ _ Hinv1), (di_end _ _ _ _ _ _ _ _ _ Hinv1). lia. }
    pose proof (drain_drop_spec cfg Hcfg Htracked (window_fuel d') s1 d' b bl0 off i' j' e Hinv1
                  ltac:(rewrite Hf'; exact Hdf) Hfuel) as Hdrop.
    rewrite Hw' in Hdrop.
    specialize (Hdrop (NoDup_app_r _ _ Hndw)).
    assert (Hrest_live : forall x, In x rest -> ledger s1 x = Live).
    { intros x Hx. rewrite Hout1.
      - simpl. apply (ow_live _ _ Ho). apply Hwl. apply Hinw. right. exact Hx.
      - intros Hin. exact (NoDup_app_disj _ _ Hndw x Hin Hx). }
    specialize (Hdrop Hrest_live).
    assert (Hfin : forall s', drain_gone cfg s1 s' d' b bl0 i' j' e -> Q s').
    { intros s' (bl2 & G1 & G2 & G3 & G4 & G5 & G6 & G7). rewrite Hw' in G5, G6.
      rewrite Hv', Hdv in G1. rewrite Htail, Hvel in G3. fold l in G3.
      unfold Q. split; [|split; [|split; [|split]]].
      - right. exists b, bl2. split; [exact G1|]. split; [exact G2|]. split; [|exact G3].
        constructor.
        + exact G4.
        + rewrite G3. rewrite Hl3 in Hnd. apply NoDup_remove_mid in Hnd. exact Hnd.
        + intros x Hx. rewrite G3 in Hx. pose proof (Hdisj x Hx) as Hnw.
          rewrite G6 by (intros H; apply Hnw; apply Hinw; right; exact H).
          rewrite Hout1 by (intros H; apply Hnw; apply Hinw; left; exact H).
          simpl. apply (ow_live _ _ Ho). fold l. rewrite Hl3.
          apply in_app_or in Hx. destruct Hx; apply in_or_app; [left; assumption|right; apply in_or_app; right; assumption].
        + intros x Hx. rewrite G3 in Hx. rewrite G7, Hn1. simpl. apply (ow_old _ _ Ho). fold l. rewrite Hl3.
          apply in_app_or in Hx. destruct Hx; apply in_or_app; [left; assumption|right; apply in_or_app; right; assumption].
      - intros x Hx. rewrite G6; [apply Hin1; exact Hx|]. intros Hr. exact (NoDup_app_disj _ _ Hndw x Hx Hr).
      - exact G5.
      - intros x Hx. rewrite G6 by (intros H; apply Hx; apply Hinw; right; exact H).
        rewrite Hout1 by (intros H; apply Hx; apply Hinw; left; exact H). reflexivity.
      - rewrite G7, Hn1. reflexivity. }
    eapply post_bind.
    - eapply post_weaken; [exact Hdrop|intros u s' H; exact (Hfin s' H)|intros s' H; exact (Hfin s' H)].
    - intros u s' H. simpl. split; [reflexivity|exact H].
  Qed.
End DrainAbs.
