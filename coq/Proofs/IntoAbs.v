(* Proofs/IntoAbs.v -- into_iter() end to end at list level: turn the vector into an IntoIter, step it
   from either end in ANY interleaving of ANY length, the caller takes what was yielded, drop the
   iterator (ANY set of panicking destructors): the yielded values are those of the double-ended cursor
   over the vector's elements; afterwards every element is in exactly one place -- yielded ones with
   the caller, all the others destroyed once -- the vector's name is gone and its block has been given
   back to the allocator with its own layout. *)
From Coq Require Import ZArith List Bool Lia Permutation.
From MV Require Import Ast Eval Scalar Machine.
From MV.Proofs Require Import Arith Logic Prim View OpsLocal Guards Grow CapHistory Drops Retain DrainIt Deref IntoIt Sentinel Core Refine Life DrainAbs.
Import ListNotations.
Open Scope Z_scope.

Section IntoAbs.
  Variable cfg : tcfg.
  Variable ncap : Z -> option Z.
  Hypothesis Hcfg : cfg_ok cfg.
  Hypothesis Hpol : policy_ok ncap.
  Hypothesis Htracked : needs_drop cfg = true.

  (* stepping touches only the length word of the iterator's block *)
  Lemma into_steps_frame steps : forall s it b bl off p r s',
    into_inv cfg s it b bl off p -> into_steps cfg it steps s = (Val r, s') ->
    ledger s' = ledger s /\ next_elem s' = next_elem s /\ vecs s' = vecs s /\ i_vec (snd r) = i_vec it /\
    (forall blx, nth_error (heap s') b = Some blx -> b_size blx = b_size bl /\ b_align blx = b_align bl).
  Proof.
    induction steps as [|st steps IH]; intros s it b bl off p r s' Hinv Hs.
    - simpl in Hs. inversion Hs; subst. repeat (split; [reflexivity|]).
      intros blx Hx. destruct Hinv as [[_ Hh] _ _ _ _ _]. rewrite Hh in Hx. inversion Hx; subst. auto.
    - simpl into_steps in Hs.
      assert (Hstep : forall (m : M (option elem * into_it)) s1 it1 o bl1 p1,
                 m s = (Val (o, it1), s1) -> ledger s1 = ledger s -> next_elem s1 = next_elem s -> vecs s1 = vecs s ->
                 i_vec it1 = i_vec it -> into_inv cfg s1 it1 b bl1 off p1 ->
                 b_size bl1 = b_size bl -> b_align bl1 = b_align bl ->
                 (r0 <- m ;; rs <- into_steps cfg (snd r0) steps ;; ret (fst r0 :: fst rs, snd rs)) s = (Val r, s') ->
                 ledger s' = ledger s /\ next_elem s' = next_elem s /\ vecs s' = vecs s /\ i_vec (snd r) = i_vec it /\
                 (forall blx, nth_error (heap s') b = Some blx -> b_size blx = b_size bl /\ b_align blx = b_align bl)).
      { intros m s1 it1 o bl1 p1 Hm H1 H2 H3 H4 Hinv1 Hsz Hal Hrun.
        rewrite (bind_val _ _ _ _ _ Hm) in Hrun. cbn [fst snd] in Hrun.
        destruct (into_protocol cfg Hcfg steps s1 it1 b bl1 off p1 Hinv1) as (s2 & it2 & bl2 & p2 & Hs2 & _).
        rewrite (bind_val _ _ _ _ _ Hs2) in Hrun. cbn [fst snd ret] in Hrun. inversion Hrun; subst. cbn [snd].
        destruct (IH s1 it1 b bl1 off p1 _ _ Hinv1 Hs2) as (A & B & C & D & E). cbn [snd] in D.
        split; [congruence|]. split; [congruence|]. split; [congruence|]. split; [congruence|].
        intros blx Hx. destruct (E blx Hx). split; congruence. }
      destruct st.
      + pose proof (into_next_spec cfg Hcfg _ _ _ _ _ _ Hinv) as Hn. revert Hn.
        destruct (Z.leb_spec (h_len bl) 0) as [L|G]; intros Hn.
        * eapply (Hstep _ s it None bl p Hn); auto.
        * eapply (Hstep _ _ _ _ (with_hdr bl (h_len bl - 1) (h_cap bl) (h_align bl)) (p + 1) Hn); try reflexivity; [|exact Hs].
          eapply into_inv_front; first [exact Hinv|lia|exact Hcfg].
      + pose proof (into_next_back_spec cfg Hcfg _ _ _ _ _ _ Hinv) as Hn. revert Hn.
        destruct (Z.leb_spec (h_len bl) 0) as [L|G]; intros Hn.
        * eapply (Hstep _ s it None bl p Hn); auto.
        * eapply (Hstep _ _ _ _ (with_hdr bl (h_len bl - 1) (h_cap bl) (h_align bl)) p Hn); try reflexivity; [|exact Hs].
          eapply into_inv_back; first [exact Hinv|lia|exact Hcfg].
  Qed.

  Lemma into_inv_same s s' it b bl off p :
    into_inv cfg s it b bl off p -> heap s' = heap s -> vecs s' = vecs s -> into_inv cfg s' it b bl off p.
  Proof.
    intros [Hv Hb Hco Hp Hbd Hi] Hh Hvs. constructor; auto.
    destruct Hv as [H1 H2]. split; [rewrite Hvs; exact H1|rewrite Hh; exact H2].
  Qed.

  (* the whole life of an IntoIter *)
  Definition into_whole (v : nat) (steps : list istep) : M (list (option elem)) :=
    it <- make_into cfg v ;;
    r <- into_steps cfg it steps ;;
    hand_out_list cfg (somes (fst r)) ;;;
    into_drop cfg (snd r) ;;;
    ret (fst r).

  Theorem into_abs s v b bl steps :
    vec_at s v b bl -> block_ok cfg bl -> owned s bl ->
    let l := velems bl in
    let Q := fun s' =>
      (forall x, In x (somes (fst (cursor l steps))) -> ledger s' x = Out) /\
      (forall x, In x (snd (cursor l steps)) -> ledger s' x = Dropped) /\
      (forall x, ~ In x l -> ledger s' x = ledger s x) /\ next_elem s' = next_elem s /\
      nth_error (vecs s') v = Some None /\
      (exists bl', nth_error (heap s') b = Some (kill bl')) /\
      exists evs, events s' = EvDealloc (b_size bl) (b_align bl) :: evs in
    post (into_whole v steps s) (fun r s' => r = fst (cursor l steps) /\ Q s') Q.
  Proof.
    intros Hv Hb Ho l Q.
    pose proof (bo_len _ _ Hb) as Hlen.
    destruct (data_at cfg s v b bl Hcfg Hv Hb) as (off & Hco & Hd).
    set (it := {| i_vec := v; i_pos := PElt b off 0 |}).
    assert (Hmk : make_into cfg v s = (Val it, s)).
    { unfold make_into. rewrite (bind_val _ _ _ _ _ (is_default_at _ _ _ _ Hv)). cbn iota.
      rewrite (bind_val _ _ _ _ _ Hd). reflexivity. }
    unfold into_whole. rewrite (bind_val _ _ _ _ _ Hmk).
    assert (Hinv : into_inv cfg s it b bl off 0).
    { constructor; simpl; auto; try lia. intros k Hk. apply (ow_init _ _ Ho). lia. }
    assert (Hrem : remaining bl 0 = l).
    { unfold remaining, window, l, velems. rewrite Z.add_0_l.
      rewrite (slice_elems_view (slots bl) 0 (h_len bl)) by lia. reflexivity. }
    destruct (into_protocol cfg Hcfg steps s it b bl off 0 Hinv) as (s1 & it1 & bl1 & p1 & Hs & Hinv1 & Hrem1 & Hlen1).
    rewrite Hrem in *.
    rewrite (bind_val _ _ _ _ _ Hs). cbn [fst snd].
    destruct (into_steps_frame steps s it b bl off 0 _ _ Hinv Hs) as (Hl1 & Hn1 & Hv1 & Hiv1 & Hsz1). cbn [snd] in Hiv1.
    destruct (Hsz1 bl1 (proj2 (ii_vec _ _ _ _ _ _ _ Hinv1))) as [Hsz Hal].
    pose proof (cursor_perm steps l) as Hperm.
    destruct (cursor l steps) as [outs rest] eqn:Ec. cbn [fst snd] in *.
    pose proof (ow_nodup _ _ Ho) as Hnd. fold l in Hnd.
    assert (Hndw : NoDup (somes outs ++ rest)) by (eapply Permutation_NoDup; [symmetry; exact Hperm|exact Hnd]).
    assert (Hinl : forall x, In x (somes outs) \/ In x rest -> In x l).
    { intros x Hx. eapply Permutation_in; [exact Hperm|]. apply in_or_app. exact Hx. }
    (* the caller takes what was yielded *)
    destruct (hand_out_list_spec cfg Htracked (somes outs) s1 (NoDup_app_left _ _ Hndw)) as (s2 & Hho & Hh2 & Hv2 & Hn2 & Hin2 & Hout2).
    { intros x Hx. rewrite Hl1. apply (ow_live _ _ Ho). apply Hinl. left. exact Hx. }
    rewrite (bind_val _ _ _ _ _ Hho).
    pose proof (into_inv_same s1 s2 it1 b bl1 off p1 Hinv1 Hh2 Hv2) as Hinv2.
    pose proof (into_drop_spec cfg Hcfg Htracked s2 it1 b bl1 off p1 Hinv2) as Hdrop.
    rewrite Hrem1 in Hdrop.
    specialize (Hdrop (NoDup_app_r _ _ Hndw)).
    assert (Hrest_live : forall x, In x rest -> ledger s2 x = Live).
    { intros x Hx. rewrite Hout2.
      - rewrite Hl1. apply (ow_live _ _ Ho). apply Hinl. right. exact Hx.
      - intros Hin. exact (NoDup_app_disj _ _ Hndw x Hin Hx). }
    specialize (Hdrop Hrest_live). cbv zeta in Hdrop.
    assert (Hfin : forall s',
              (forall e, In e rest -> ledger s' e = Dropped) /\ only_changes s2 s' rest /\
              nth_error (vecs s') (i_vec it1) = Some None /\
              nth_error (heap s') b = Some (kill (with_hdr bl1 0 (h_cap bl1) (h_align bl1))) /\
              (exists evs, events s' = EvDealloc (b_size bl1) (b_align bl1) :: evs) -> Q s').
    { intros s' (G1 & [G2n G2l] & G3 & G4 & G5). unfold Q.
      split; [|split; [exact G1|split; [|split; [|split; [|split]]]]].
      - intros x Hx. rewrite G2l; [apply Hin2; exact Hx|]. intros Hr. exact (NoDup_app_disj _ _ Hndw x Hx Hr).
      - intros x Hx. rewrite G2l by (intros H; apply Hx; apply Hinl; right; exact H).
        rewrite Hout2 by (intros H; apply Hx; apply Hinl; left; exact H). rewrite Hl1. reflexivity.
      - rewrite G2n, Hn2, Hn1. reflexivity.
      - rewrite Hiv1 in G3. exact G3.
      - eexists. exact G4.
      - destruct G5 as [evs G5]. exists evs. rewrite G5, Hsz, Hal. reflexivity. }
    eapply post_bind.
    - eapply post_weaken; [exact Hdrop|intros u s' H; exact (Hfin s' H)|intros s' H; exact (Hfin s' H)].
    - intros u s' H. simpl. split; [reflexivity|exact H].
  Qed.
End IntoAbs.
