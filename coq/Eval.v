(* Eval.v -- semantics of the IR of Ast.v.  Fixed file (part of the trusted
   base: it is the meaning given to the syntax that rs2v dumps).

   - usize arithmetic: in the Debug profile + - * panic on overflow/underflow,
     in the Release profile they wrap modulo 2^64; / and % panic on zero in both.
   - debug_assert! fires only in the Debug profile.
   - `while` and calls consume fuel; exhaustion is the distinguished outcome
     NoFuel (a non-terminating loop shows up as NoFuel for every fuel).
   - everything the evaluator does not know (methods of the vector, allocator
     calls, ...) is delegated to a handler `prim` supplied by the model
     (Machine.v instantiates it with its checked primitives). *)
From Coq Require Import ZArith List String Bool Lia.
From MV Require Import Ast.
Import ListNotations.
Open Scope string_scope.
Open Scope list_scope.
Open Scope Z_scope.

Definition W64 : Z := 18446744073709551616.       (* 2^64 *)
Definition USIZE_MAX : Z := 18446744073709551615.
Definition ISIZE_MAX : Z := 9223372036854775807.
Definition HEADER_SIZE : Z := 24.
Definition HEADER_ALIGN : Z := 8.

Inductive val :=
| VInt (n : Z)
| VBool (b : bool)
| VUnit
| VTuple (vs : list val)
| VCtor (c : string) (args : list val)
| VObj (id : nat)                       (* a vector / pointer object of the world *)
| VStruct (name : string) (fs : list (string * val)).

(* parameters of the element type and the build profile *)
Record tcfg := {
  esz : Z;              (* size_of::<T>()  *)
  ealign : Z;           (* align_of::<T>() *)
  needs_drop : bool;    (* core::mem::needs_drop::<T>() *)
  release : bool        (* true: optimized build (wrapping arithmetic, no debug_assert) *)
}.

Inductive outcome (F A : Type) :=
| Norm (a : A)
| Ret (v : val)          (* `return v` travelling to the function boundary *)
| Panic
| Fail (f : F)           (* failure reported by the world (UB kind, alloc abort ...) *)
| Stuck (why : string)   (* IR construct without semantics: translator/evaluator gap *)
| NoFuel.
Arguments Norm {F A}. Arguments Ret {F A}. Arguments Panic {F A}.
Arguments Fail {F A}. Arguments Stuck {F A}. Arguments NoFuel {F A}.

Definition is_pow2 (a : Z) : bool :=
  (0 <? a) && (Z.land a (a - 1) =? 0).

(* Layout::from_size_align: Ok iff align is a power of two and size, rounded
   up to align, does not exceed isize::MAX *)
Definition layout_ok (size align : Z) : bool :=
  is_pow2 align && (size <=? ISIZE_MAX - (align - 1)).

Section Eval.
  Variable F : Type.             (* world failures *)
  Variable W : Type.             (* world state    *)
  Variable cfg : tcfg.
  Variable funs : string -> option fn_ast.
  Variable prim : string -> list val -> W -> outcome F val * W.

  Definition env := list (string * val).

  Fixpoint lookup (x : string) (e : env) : option val :=
    match e with
    | [] => None
    | (y, v) :: e' => if String.eqb x y then Some v else lookup x e'
    end.

  Fixpoint update (x : string) (v : val) (e : env) : option env :=
    match e with
    | [] => None
    | (y, w) :: e' =>
        if String.eqb x y then Some ((y, v) :: e')
        else match update x v e' with Some e'' => Some ((y, w) :: e'') | None => None end
    end.

  Definition arith (op : binop) (a b : Z) : outcome F val :=
    match op with
    | Add => let r := a + b in
             if r <? W64 then Norm (VInt r)
             else if release cfg then Norm (VInt (r - W64)) else Panic
    | Sub => let r := a - b in
             if 0 <=? r then Norm (VInt r)
             else if release cfg then Norm (VInt (r + W64)) else Panic
    | Mul => let r := a * b in
             if r <? W64 then Norm (VInt r)
             else if release cfg then Norm (VInt (r mod W64)) else Panic
    | Div => if b =? 0 then Panic else Norm (VInt (a / b))
    | Rem => if b =? 0 then Panic else Norm (VInt (a mod b))
    | Eq => Norm (VBool (a =? b))
    | Ne => Norm (VBool (negb (a =? b)))
    | Lt => Norm (VBool (a <? b))
    | Le => Norm (VBool (a <=? b))
    | Gt => Norm (VBool (b <? a))
    | Ge => Norm (VBool (b <=? a))
    | And | Or => Stuck "arith: boolean operator on integers"
    end.

  Definition binop_val (op : binop) (a b : val) : outcome F val :=
    match a, b with
    | VInt x, VInt y => arith op x y
    | VBool x, VBool y =>
        match op with
        | And => Norm (VBool (x && y))
        | Or => Norm (VBool (x || y))
        | Eq => Norm (VBool (Bool.eqb x y))
        | Ne => Norm (VBool (negb (Bool.eqb x y)))
        | _ => Stuck "binop on booleans"
        end
    | VObj x, VObj y =>
        match op with
        | Eq => Norm (VBool (Nat.eqb x y))
        | Ne => Norm (VBool (negb (Nat.eqb x y)))
        | _ => Stuck "binop on objects"
        end
    | _, _ => Stuck "binop: operand kinds"
    end.

  (* calls whose meaning does not depend on the world *)
  Definition builtin (f : string) (args : list val) : option (outcome F val) :=
    match f, args with
    | "size_of::<T>", [] => Some (Norm (VInt (esz cfg)))
    | "align_of::<T>", [] => Some (Norm (VInt (ealign cfg)))
    | "size_of::<Header>", [] => Some (Norm (VInt HEADER_SIZE))
    | "align_of::<Header>", [] => Some (Norm (VInt HEADER_ALIGN))
    | "size_of::<I::Item>", [] => Some (Norm (VInt (esz cfg)))
    | "needs_drop::<T>", [] => Some (Norm (VBool (needs_drop cfg)))
    | "max", [VInt a; VInt b] => Some (Norm (VInt (Z.max a b)))
    | "min", [VInt a; VInt b] => Some (Norm (VInt (Z.min a b)))
    | ".max", [VInt a; VInt b] => Some (Norm (VInt (Z.max a b)))
    | ".min", [VInt a; VInt b] => Some (Norm (VInt (Z.min a b)))
    | ".checked_add", [VInt a; VInt b] =>
        Some (Norm (if a + b <? W64 then VCtor "Some" [VInt (a + b)] else VCtor "None" []))
    | ".checked_sub", [VInt a; VInt b] =>
        Some (Norm (if 0 <=? a - b then VCtor "Some" [VInt (a - b)] else VCtor "None" []))
    | ".checked_mul", [VInt a; VInt b] =>
        Some (Norm (if a * b <? W64 then VCtor "Some" [VInt (a * b)] else VCtor "None" []))
    | ".is_power_of_two", [VInt a] => Some (Norm (VBool (is_pow2 a)))
    | ".expect", [VCtor "Some" [v]; _] => Some (Norm v)
    | ".expect", [VCtor "Ok" [v]; _] => Some (Norm v)
    | ".expect", [VCtor "None" []; _] => Some Panic
    | ".expect", [VCtor "Err" _; _] => Some Panic
    | ".unwrap", [VCtor "Some" [v]] => Some (Norm v)
    | ".unwrap", [VCtor "Ok" [v]] => Some (Norm v)
    | ".unwrap", [VCtor "None" []] => Some Panic
    | ".unwrap", [VCtor "Err" _] => Some Panic
    | ".is_none", [VCtor "None" []] => Some (Norm (VBool true))
    | ".is_none", [VCtor "Some" _] => Some (Norm (VBool false))
    | ".is_some", [VCtor "None" []] => Some (Norm (VBool false))
    | ".is_some", [VCtor "Some" _] => Some (Norm (VBool true))
    | "Layout::from_size_align", [VInt s; VInt a] =>
        Some (Norm (if layout_ok s a then VCtor "Ok" [VCtor "Layout" [VInt s; VInt a]]
                    else VCtor "Err" []))
    | ".size", [VCtor "Layout" [s; _]] => Some (Norm s)
    | ".align", [VCtor "Layout" [_; a]] => Some (Norm a)
    | "Some", [v] => Some (Norm (VCtor "Some" [v]))
    | "Ok", [v] => Some (Norm (VCtor "Ok" [v]))
    | "Err", [v] => Some (Norm (VCtor "Err" [v]))
    | ".cmp", [VInt a; VInt b] =>
        Some (Norm (VCtor (if a <? b then "Less" else if a =? b then "Equal" else "Greater") []))
    | _, _ => None
    end.

  Definition match_pat (p : pat) (v : val) : option env :=
    match p, v with
    | PWild, _ => Some []
    | PBind x, _ => Some [(x, v)]
    | PLit n, VInt m => if n =? m then Some [] else None
    | PRange lo hi, VInt m => if (lo <=? m) && (m <=? hi) then Some [] else None
    | PCtor c xs, VCtor d args =>
        if String.eqb c d && Nat.eqb (List.length xs) (List.length args)
        then Some (combine xs args) else None
    | _, _ => None
    end.

  Definition bind_names (xs : list string) (v : val) : option env :=
    match xs, v with
    | [x], _ => Some [(x, v)]
    | _, VTuple vs => if Nat.eqb (List.length xs) (List.length vs) then Some (rev (combine xs vs)) else None
    | _, _ => None
    end.

  Definition restore (before after : env) : env :=
    skipn (List.length after - List.length before) after.

  (* R: result of evaluating an expression: outcome, environment, world *)
  Definition R (A : Type) : Type := outcome F A * env * W.

  Fixpoint eval_expr (fuel : nat) (e : expr) (en : env) (w : W) {struct fuel} : R val :=
    match fuel with
    | O => (NoFuel, en, w)
    | S fuel =>
      match e with
      | ELit n => (Norm (VInt n), en, w)
      | EBool b => (Norm (VBool b), en, w)
      | EUnit => (Norm VUnit, en, w)
      | EVar x =>
          match lookup x en with
          | Some v => (Norm v, en, w)
          | None => (Norm (VCtor x []), en, w)      (* unit-like constructor / constant path *)
          end
      | EBin And a b =>
          match eval_expr fuel a en w with
          | (Norm (VBool true), en, w) => eval_expr fuel b en w
          | (Norm (VBool false), en, w) => (Norm (VBool false), en, w)
          | (Norm _, en, w) => (Stuck "&& on non-boolean", en, w)
          | r => r
          end
      | EBin Or a b =>
          match eval_expr fuel a en w with
          | (Norm (VBool false), en, w) => eval_expr fuel b en w
          | (Norm (VBool true), en, w) => (Norm (VBool true), en, w)
          | (Norm _, en, w) => (Stuck "|| on non-boolean", en, w)
          | r => r
          end
      | EBin op a b =>
          match eval_expr fuel a en w with
          | (Norm va, en, w) =>
              match eval_expr fuel b en w with
              | (Norm vb, en, w) => (binop_val op va vb, en, w)
              | r => r
              end
          | r => r
          end
      | ENot a =>
          match eval_expr fuel a en w with
          | (Norm (VBool b), en, w) => (Norm (VBool (negb b)), en, w)
          | (Norm _, en, w) => (Stuck "! on non-boolean", en, w)
          | r => r
          end
      | EIf c t e =>
          match eval_expr fuel c en w with
          | (Norm (VBool true), en, w) => eval_block fuel t en w
          | (Norm (VBool false), en, w) =>
              match e with
              | Some b => eval_block fuel b en w
              | None => (Norm VUnit, en, w)
              end
          | (Norm _, en, w) => (Stuck "if on non-boolean", en, w)
          | r => r
          end
      | EMatch s arms =>
          match eval_expr fuel s en w with
          | (Norm v, en, w) => eval_arms fuel v arms en w
          | r => r
          end
      | ECall f args =>
          match eval_args fuel args en w with
          | (Norm vs, en, w) =>
              match builtin f vs with
              | Some o => (o, en, w)
              | None =>
                  match funs f with
                  | Some fa =>
                      match eval_block fuel (fn_body fa) (rev (combine (fn_params fa) vs)) w with
                      | (Norm v, _, w) => (Norm v, en, w)
                      | (Ret v, _, w) => (Norm v, en, w)
                      | (Panic, _, w) => (Panic, en, w)
                      | (Fail x, _, w) => (Fail x, en, w)
                      | (Stuck s, _, w) => (Stuck s, en, w)
                      | (NoFuel, _, w) => (NoFuel, en, w)
                      end
                  | None => let '(o, w) := prim f vs w in (o, en, w)
                  end
              end
          | (Ret v, en, w) => (Ret v, en, w)
          | (Panic, en, w) => (Panic, en, w)
          | (Fail x, en, w) => (Fail x, en, w)
          | (Stuck s, en, w) => (Stuck s, en, w)
          | (NoFuel, en, w) => (NoFuel, en, w)
          end
      | EField a f =>
          match eval_expr fuel a en w with
          | (Norm (VStruct _ fs), en, w) =>
              match lookup f fs with
              | Some v => (Norm v, en, w)
              | None => (Stuck "no such field", en, w)
              end
          | (Norm v, en, w) => let '(o, w) := prim ("field:" ++ f)%string [v] w in (o, en, w)
          | r => r
          end
      | ETuple es =>
          match eval_args fuel es en w with
          | (Norm vs, en, w) => (Norm (VTuple vs), en, w)
          | (Ret v, en, w) => (Ret v, en, w)
          | (Panic, en, w) => (Panic, en, w)
          | (Fail x, en, w) => (Fail x, en, w)
          | (Stuck s, en, w) => (Stuck s, en, w)
          | (NoFuel, en, w) => (NoFuel, en, w)
          end
      | EStruct name fs =>
          match eval_fields fuel fs en w with
          | (Norm vs, en, w) => (Norm (VStruct name vs), en, w)
          | (Ret v, en, w) => (Ret v, en, w)
          | (Panic, en, w) => (Panic, en, w)
          | (Fail x, en, w) => (Fail x, en, w)
          | (Stuck s, en, w) => (Stuck s, en, w)
          | (NoFuel, en, w) => (NoFuel, en, w)
          end
      | EBlock b => eval_block fuel b en w
      | EForeign t => (Stuck ("foreign: " ++ t)%string, en, w)
      end
    end

  with eval_args (fuel : nat) (es : list expr) (en : env) (w : W) {struct fuel} : R (list val) :=
    match fuel with
    | O => (NoFuel, en, w)
    | S fuel =>
      match es with
      | [] => (Norm [], en, w)
      | e :: es =>
          match eval_expr fuel e en w with
          | (Norm v, en, w) =>
              match eval_args fuel es en w with
              | (Norm vs, en, w) => (Norm (v :: vs), en, w)
              | r => r
              end
          | (Ret v, en, w) => (Ret v, en, w)
          | (Panic, en, w) => (Panic, en, w)
          | (Fail x, en, w) => (Fail x, en, w)
          | (Stuck s, en, w) => (Stuck s, en, w)
          | (NoFuel, en, w) => (NoFuel, en, w)
          end
      end
    end

  with eval_fields (fuel : nat) (fs : list (string * expr)) (en : env) (w : W) {struct fuel}
    : R (list (string * val)) :=
    match fuel with
    | O => (NoFuel, en, w)
    | S fuel =>
      match fs with
      | [] => (Norm [], en, w)
      | (f, e) :: fs =>
          match eval_expr fuel e en w with
          | (Norm v, en, w) =>
              match eval_fields fuel fs en w with
              | (Norm vs, en, w) => (Norm ((f, v) :: vs), en, w)
              | r => r
              end
          | (Ret v, en, w) => (Ret v, en, w)
          | (Panic, en, w) => (Panic, en, w)
          | (Fail x, en, w) => (Fail x, en, w)
          | (Stuck s, en, w) => (Stuck s, en, w)
          | (NoFuel, en, w) => (NoFuel, en, w)
          end
      end
    end

  with eval_arms (fuel : nat) (v : val) (arms : list (pat * expr)) (en : env) (w : W)
       {struct fuel} : R val :=
    match fuel with
    | O => (NoFuel, en, w)
    | S fuel =>
      match arms with
      | [] => (Stuck "match: no arm applies", en, w)
      | (p, body) :: arms =>
          match match_pat p v with
          | Some bs =>
              match eval_expr fuel body (bs ++ en) w with
              | (o, en', w) => (o, restore en en', w)
              end
          | None => eval_arms fuel v arms en w
          end
      end
    end

  with eval_block (fuel : nat) (b : block) (en : env) (w : W) {struct fuel} : R val :=
    match fuel with
    | O => (NoFuel, en, w)
    | S fuel =>
      match b with
      | Blk ss tail =>
          match eval_stmts fuel ss en w with
          | (Norm tt, en', w) =>
              match tail with
              | Some e =>
                  match eval_expr fuel e en' w with
                  | (o, en'', w) => (o, restore en en'', w)
                  end
              | None => (Norm VUnit, restore en en', w)
              end
          | (Ret v, en', w) => (Ret v, restore en en', w)
          | (Panic, en', w) => (Panic, restore en en', w)
          | (Fail x, en', w) => (Fail x, restore en en', w)
          | (Stuck s, en', w) => (Stuck s, restore en en', w)
          | (NoFuel, en', w) => (NoFuel, restore en en', w)
          end
      end
    end

  with eval_stmts (fuel : nat) (ss : list stmt) (en : env) (w : W) {struct fuel} : R unit :=
    match fuel with
    | O => (NoFuel, en, w)
    | S fuel =>
      match ss with
      | [] => (Norm tt, en, w)
      | s :: ss =>
          match eval_stmt fuel s en w with
          | (Norm tt, en, w) => eval_stmts fuel ss en w
          | r => r
          end
      end
    end

  with eval_stmt (fuel : nat) (s : stmt) (en : env) (w : W) {struct fuel} : R unit :=
    match fuel with
    | O => (NoFuel, en, w)
    | S fuel =>
      match s with
      | SLet xs e =>
          match eval_expr fuel e en w with
          | (Norm v, en, w) =>
              match bind_names xs v with
              | Some bs => (Norm tt, bs ++ en, w)
              | None => (Stuck "let: pattern does not fit the value", en, w)
              end
          | (Ret v, en, w) => (Ret v, en, w)
          | (Panic, en, w) => (Panic, en, w)
          | (Fail x, en, w) => (Fail x, en, w)
          | (Stuck s, en, w) => (Stuck s, en, w)
          | (NoFuel, en, w) => (NoFuel, en, w)
          end
      | SAssign x e =>
          match eval_expr fuel e en w with
          | (Norm v, en, w) =>
              match update x v en with
              | Some en' => (Norm tt, en', w)
              | None =>
                  (* not a local: an assignment to a place of the world, e.g. "self.buf" *)
                  match prim ("set:" ++ x)%string (v :: match lookup "self" en with Some s => [s] | None => [] end) w with
                  | (Norm _, w) => (Norm tt, en, w)
                  | (Ret v, w) => (Ret v, en, w)
                  | (Panic, w) => (Panic, en, w)
                  | (Fail f, w) => (Fail f, en, w)
                  | (Stuck s, w) => (Stuck s, en, w)
                  | (NoFuel, w) => (NoFuel, en, w)
                  end
              end
          | (Ret v, en, w) => (Ret v, en, w)
          | (Panic, en, w) => (Panic, en, w)
          | (Fail x, en, w) => (Fail x, en, w)
          | (Stuck s, en, w) => (Stuck s, en, w)
          | (NoFuel, en, w) => (NoFuel, en, w)
          end
      | SOpAssign op x e =>
          match eval_expr fuel e en w with
          | (Norm v, en, w) =>
              match lookup x en with
              | Some old =>
                  match binop_val op old v with
                  | Norm r =>
                      match update x r en with
                      | Some en' => (Norm tt, en', w)
                      | None => (Stuck "op-assign: update", en, w)
                      end
                  | Ret v => (Ret v, en, w)
                  | Panic => (Panic, en, w)
                  | Fail f => (Fail f, en, w)
                  | Stuck s => (Stuck s, en, w)
                  | NoFuel => (NoFuel, en, w)
                  end
              | None => (Stuck "op-assign to a non-local", en, w)
              end
          | (Ret v, en, w) => (Ret v, en, w)
          | (Panic, en, w) => (Panic, en, w)
          | (Fail x, en, w) => (Fail x, en, w)
          | (Stuck s, en, w) => (Stuck s, en, w)
          | (NoFuel, en, w) => (NoFuel, en, w)
          end
      | SExpr e =>
          match eval_expr fuel e en w with
          | (Norm _, en, w) => (Norm tt, en, w)
          | (Ret v, en, w) => (Ret v, en, w)
          | (Panic, en, w) => (Panic, en, w)
          | (Fail x, en, w) => (Fail x, en, w)
          | (Stuck s, en, w) => (Stuck s, en, w)
          | (NoFuel, en, w) => (NoFuel, en, w)
          end
      | SWhile c body =>
          match eval_expr fuel c en w with
          | (Norm (VBool true), en, w) =>
              match eval_block fuel body en w with
              | (Norm _, en, w) => eval_stmt fuel (SWhile c body) en w
              | (Ret v, en, w) => (Ret v, en, w)
              | (Panic, en, w) => (Panic, en, w)
              | (Fail x, en, w) => (Fail x, en, w)
              | (Stuck s, en, w) => (Stuck s, en, w)
              | (NoFuel, en, w) => (NoFuel, en, w)
              end
          | (Norm (VBool false), en, w) => (Norm tt, en, w)
          | (Norm _, en, w) => (Stuck "while on non-boolean", en, w)
          | (Ret v, en, w) => (Ret v, en, w)
          | (Panic, en, w) => (Panic, en, w)
          | (Fail x, en, w) => (Fail x, en, w)
          | (Stuck s, en, w) => (Stuck s, en, w)
          | (NoFuel, en, w) => (NoFuel, en, w)
          end
      | SReturn None => (Ret VUnit, en, w)
      | SReturn (Some e) =>
          match eval_expr fuel e en w with
          | (Norm v, en, w) => (Ret v, en, w)
          | (Ret v, en, w) => (Ret v, en, w)
          | (Panic, en, w) => (Panic, en, w)
          | (Fail x, en, w) => (Fail x, en, w)
          | (Stuck s, en, w) => (Stuck s, en, w)
          | (NoFuel, en, w) => (NoFuel, en, w)
          end
      | SPanic _ => (Panic, en, w)
      | SDebugAssert e =>
          if release cfg then (Norm tt, en, w)
          else match eval_expr fuel e en w with
               | (Norm (VBool true), en, w) => (Norm tt, en, w)
               | (Norm (VBool false), en, w) => (Panic, en, w)
               | (Norm _, en, w) => (Stuck "debug_assert on non-boolean", en, w)
               | (Ret v, en, w) => (Ret v, en, w)
               | (Panic, en, w) => (Panic, en, w)
               | (Fail x, en, w) => (Fail x, en, w)
               | (Stuck s, en, w) => (Stuck s, en, w)
               | (NoFuel, en, w) => (NoFuel, en, w)
               end
      | SForeign t => (Stuck ("foreign: " ++ t)%string, en, w)
      end
    end.

  (* run a whole function: `Ret v` at the boundary becomes the result *)
  Definition eval_fn (fuel : nat) (fa : fn_ast) (args : list val) (w : W) : outcome F val * W :=
    match eval_block fuel (fn_body fa) (rev (combine (fn_params fa) args)) w with
    | (Norm v, _, w) => (Norm v, w)
    | (Ret v, _, w) => (Norm v, w)
    | (o, _, w) => (o, w)
    end.
End Eval.

Arguments eval_fn {F W}.
Arguments eval_expr {F W}.
Arguments eval_block {F W}.
Arguments eval_stmt {F W}.
