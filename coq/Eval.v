(* Eval.v -- semantics of the IR of Ast.v.  Fixed file (part of the trusted
   base: it is the meaning given to the syntax that rs2v dumps).

   - usize arithmetic: in the Debug profile + - * panic on overflow/underflow,
     in the Release profile they wrap modulo 2^64; / and % panic on zero in both.
   - debug_assert! fires only in the Debug profile.
   - `while` and calls consume fuel; exhaustion is the distinguished outcome
     NoFuel (a non-terminating loop shows up as NoFuel for every fuel).
   - everything the evaluator does not know (methods of the vector, allocator
     calls, ...) is delegated to a handler `prim` supplied by the model
     (Machine.v instantiates it with its checked primitives). *)
From Coq Require Import ZArith List String Bool Lia.
From MV Require Import Ast.
Import ListNotations.
Open Scope string_scope.
Open Scope list_scope.
Open Scope Z_scope.

Definition W64 : Z := 18446744073709551616.       (* 2^64 *)
Definition USIZE_MAX : Z := 18446744073709551615.
Definition ISIZE_MAX : Z := 9223372036854775807.
Definition HEADER_SIZE : Z := 24.
Definition HEADER_ALIGN : Z := 8.

(* a raw element pointer `*mut T` of the world (the machine of Machine.v interprets it; the
   evaluator only passes it around) *)
Inductive eptr :=
| PNull
| PDangling                                 (* NonNull::dangling(): address = align_of T *)
| PWild                                     (* dangling - 1 element, wrapped *)
| PElt (b : nat) (off : Z) (i : Z).         (* block b, data assumed at byte offset off, element i *)

Inductive val :=
| VPtr (p : eptr)
| VInt (n : Z)
| VBool (b : bool)
| VUnit
| VTuple (vs : list val)
| VCtor (c : string) (args : list val)
| VObj (id : nat)                       (* a vector / pointer object of the world *)
| VStruct (name : string) (fs : list (string * val)).

(* parameters of the element type and the build profile *)
Record tcfg := {
  esz : Z;              (* size_of::<T>()  *)
  ealign : Z;           (* align_of::<T>() *)
  needs_drop : bool;    (* core::mem::needs_drop::<T>() *)
  release : bool        (* true: optimized build (wrapping arithmetic, no debug_assert) *)
}.

Inductive outcome (F A : Type) :=
| Norm (a : A)
| Ret (v : val)          (* `return v` travelling to the function boundary *)
| Panic
| Fail (f : F)           (* failure reported by the world (UB kind, alloc abort ...) *)
| Stuck (why : string)   (* IR construct without semantics: translator/evaluator gap *)
| NoFuel.
Arguments Norm {F A}. Arguments Ret {F A}. Arguments Panic {F A}.
Arguments Fail {F A}. Arguments Stuck {F A}. Arguments NoFuel {F A}.

Definition is_pow2 (a : Z) : bool :=
  (0 <? a) && (Z.land a (a - 1) =? 0).

(* Layout::from_size_align: Ok iff align is a power of two and size, rounded
   up to align, does not exceed isize::MAX *)
Definition layout_ok (size align : Z) : bool :=
  is_pow2 align && (size <=? ISIZE_MAX - (align - 1)).

Section Eval.
  Variable F : Type.             (* world failures *)
  Variable W : Type.             (* world state    *)
  Variable cfg : tcfg.
  Variable funs : string -> option fn_ast.
  (* the answer of a whole evaluation, and continuations *)
  Definition Ans : Type := outcome F val * W.
  Definition KV : Type := val -> W -> Ans.
  (* the world handler, in continuation-passing style: `k` receives the value of a call that
     completes normally; every other outcome is the answer at once *)
  Variable prim : string -> list val -> W -> KV -> Ans.

  Definition env := list (string * val).

  Fixpoint lookup (x : string) (e : env) : option val :=
    match e with
    | [] => None
    | (y, v) :: e' => if String.eqb x y then Some v else lookup x e'
    end.

  Fixpoint update (x : string) (v : val) (e : env) : option env :=
    match e with
    | [] => None
    | (y, w) :: e' =>
        if String.eqb x y then Some ((y, v) :: e')
        else match update x v e' with Some e'' => Some ((y, w) :: e'') | None => None end
    end.

  Definition arith (op : binop) (a b : Z) : outcome F val :=
    match op with
    | Add => let r := a + b in
             if r <? W64 then Norm (VInt r)
             else if release cfg then Norm (VInt (r - W64)) else Panic
    | Sub => let r := a - b in
             if 0 <=? r then Norm (VInt r)
             else if release cfg then Norm (VInt (r + W64)) else Panic
    | Mul => let r := a * b in
             if r <? W64 then Norm (VInt r)
             else if release cfg then Norm (VInt (r mod W64)) else Panic
    | Div => if b =? 0 then Panic else Norm (VInt (a / b))
    | Rem => if b =? 0 then Panic else Norm (VInt (a mod b))
    | Eq => Norm (VBool (a =? b))
    | Ne => Norm (VBool (negb (a =? b)))
    | Lt => Norm (VBool (a <? b))
    | Le => Norm (VBool (a <=? b))
    | Gt => Norm (VBool (b <? a))
    | Ge => Norm (VBool (b <=? a))
    | And | Or => Stuck "arith: boolean operator on integers"
    end.

  Definition binop_val (op : binop) (a b : val) : outcome F val :=
    match a, b with
    | VInt x, VInt y => arith op x y
    | VBool x, VBool y =>
        match op with
        | And => Norm (VBool (x && y))
        | Or => Norm (VBool (x || y))
        | Eq => Norm (VBool (Bool.eqb x y))
        | Ne => Norm (VBool (negb (Bool.eqb x y)))
        | _ => Stuck "binop on booleans"
        end
    | VObj x, VObj y =>
        match op with
        | Eq => Norm (VBool (Nat.eqb x y))
        | Ne => Norm (VBool (negb (Nat.eqb x y)))
        | _ => Stuck "binop on objects"
        end
    | _, _ => Stuck "binop: operand kinds"
    end.

  (* `f(args)` where f is a local variable holding a closure value *)
  Definition called_closure (f : string) (en : env) : option val :=
    match lookup f en with
    | Some (VCtor d a) => if String.eqb d "Closure" then Some (VCtor d a) else None
    | _ => None
    end.

  (* raw pointers, and raw pointers cast to integers (`p as usize`): addresses the evaluator cannot
     compute with -- comparing or subtracting two of them is a question to the world *)
  Definition is_addr (a : val) : bool :=
    match a with VPtr _ => true | VCtor d _ => String.eqb d "Addr" | _ => false end.
  Definition both_ptr (a b : val) : bool := is_addr a && is_addr b.

  (* comparison of two raw pointers is a question to the world (provenance) *)
  Definition ptr_cmp_name (op : binop) : string :=
    match op with
    | Lt => "ptr:lt" | Le => "ptr:le" | Gt => "ptr:gt" | Ge => "ptr:ge" | Eq => "ptr:eq" | Ne => "ptr:ne"
    | Sub => "ptr:sub"
    | _ => "ptr:arith"
    end.

  (* calls whose meaning does not depend on the world *)
  Definition builtin (f : string) (args : list val) : option (outcome F val) :=
    match f, args with
    | "size_of::<T>", [] => Some (Norm (VInt (esz cfg)))
    | "align_of::<T>", [] => Some (Norm (VInt (ealign cfg)))
    | "size_of::<Header>", [] => Some (Norm (VInt HEADER_SIZE))
    | "align_of::<Header>", [] => Some (Norm (VInt HEADER_ALIGN))
    | "size_of::<I::Item>", [] => Some (Norm (VInt (esz cfg)))
    | "needs_drop::<T>", [] => Some (Norm (VBool (needs_drop cfg)))
    | "max", [VInt a; VInt b] => Some (Norm (VInt (Z.max a b)))
    | "min", [VInt a; VInt b] => Some (Norm (VInt (Z.min a b)))
    | ".max", [VInt a; VInt b] => Some (Norm (VInt (Z.max a b)))
    | ".min", [VInt a; VInt b] => Some (Norm (VInt (Z.min a b)))
    | ".checked_add", [VInt a; VInt b] =>
        Some (Norm (if a + b <? W64 then VCtor "Some" [VInt (a + b)] else VCtor "None" []))
    | ".checked_sub", [VInt a; VInt b] =>
        Some (Norm (if 0 <=? a - b then VCtor "Some" [VInt (a - b)] else VCtor "None" []))
    | ".checked_mul", [VInt a; VInt b] =>
        Some (Norm (if a * b <? W64 then VCtor "Some" [VInt (a * b)] else VCtor "None" []))
    | ".is_power_of_two", [VInt a] => Some (Norm (VBool (is_pow2 a)))
    | ".expect", [VCtor "Some" [v]; _] => Some (Norm v)
    | ".expect", [VCtor "Ok" [v]; _] => Some (Norm v)
    | ".expect", [VCtor "None" []; _] => Some Panic
    | ".expect", [VCtor "Err" _; _] => Some Panic
    | ".unwrap", [VCtor "Some" [v]] => Some (Norm v)
    | ".unwrap", [VCtor "Ok" [v]] => Some (Norm v)
    | ".unwrap", [VCtor "None" []] => Some Panic
    | ".unwrap", [VCtor "Err" _] => Some Panic
    | ".is_none", [VCtor "None" []] => Some (Norm (VBool true))
    | ".is_none", [VCtor "Some" _] => Some (Norm (VBool false))
    | ".is_some", [VCtor "None" []] => Some (Norm (VBool false))
    | ".is_some", [VCtor "Some" _] => Some (Norm (VBool true))
    | "Layout::from_size_align", [VInt s; VInt a] =>
        Some (Norm (if layout_ok s a then VCtor "Ok" [VCtor "Layout" [VInt s; VInt a]]
                    else VCtor "Err" []))
    | ".size", [VCtor "Layout" [s; _]] => Some (Norm s)
    | ".align", [VCtor "Layout" [_; a]] => Some (Norm a)
    | "Some", [v] => Some (Norm (VCtor "Some" [v]))
    | "Ok", [v] => Some (Norm (VCtor "Ok" [v]))
    | "Err", [v] => Some (Norm (VCtor "Err" [v]))
    | ".cmp", [VInt a; VInt b] =>
        Some (Norm (VCtor (if a <? b then "Less" else if a =? b then "Equal" else "Greater") []))
    | _, _ => None
    end.

  Definition match_pat (p : pat) (v : val) : option env :=
    match p, v with
    | Ast.PWild, _ => Some []
    | PBind x, _ => Some [(x, v)]
    | PLit n, VInt m => if n =? m then Some [] else None
    | PRange lo hi, VInt m => if (lo <=? m) && (m <=? hi) then Some [] else None
    | PCtor c xs, VCtor d args =>
        if String.eqb c d && Nat.eqb (List.length xs) (List.length args)
        then Some (combine xs args) else None
    | _, _ => None
    end.

  Definition bind_names (xs : list string) (v : val) : option env :=
    match xs, v with
    | [x], _ => Some [(x, v)]
    | _, VTuple vs => if Nat.eqb (List.length xs) (List.length vs) then Some (rev (combine xs vs)) else None
    | _, _ => None
    end.

  Definition restore (before after : env) : env :=
    skipn (List.length after - List.length before) after.

  (* The evaluator is written in continuation-passing style: `k` receives the value (and, for
     statements and blocks, the environment) and the world after a NORMAL completion, `kr` is the
     continuation of `return`; a panic, a world failure, a stuck term or exhausted fuel is the answer
     at once.  So neither the environment nor the argument values ever travel through the RESULT of a
     world call, and symbolic evaluation of a body (cbv with the world's primitives opaque) yields
     one small decision tree over the primitives' results -- linear in the size of the body.
     A block in EXPRESSION position may declare locals but must not assign to outer variables
     (`assigns` rejects it as Stuck). *)

  Definition kont (o : outcome F val) (w : W) (k : KV) : Ans :=
    match o with
    | Norm v => k v w
    | Ret v => (Ret v, w)
    | Panic => (Panic, w)
    | Fail x => (Fail x, w)
    | Stuck s => (Stuck s, w)
    | NoFuel => (NoFuel, w)
    end.

  (* does a statement list assign to a variable it did not declare?  (syntactic, shallow: nested
     expression blocks are checked when they are evaluated) *)
  Fixpoint assigns (ss : list stmt) : bool :=
    match ss with
    | [] => false
    | SAssign _ _ :: _ => true
    | SOpAssign _ _ _ :: _ => true
    | SWhile _ _ :: _ => true
    | _ :: ss => assigns ss
    end.
  Definition block_assigns (b : block) : bool := match b with Blk ss _ => assigns ss end.

  Fixpoint eval_expr (fuel : nat) (e : expr) (en : env) (w : W) (kr k : KV) {struct fuel} : Ans :=
    match fuel with
    | O => (NoFuel, w)
    | S fuel =>
      match e with
      | ELit n => k (VInt n) w
      | EBool b => k (VBool b) w
      | EUnit => k VUnit w
      | EVar x =>
          match lookup x en with
          | Some v => k v w
          | None => k (VCtor x []) w            (* unit-like constructor / constant path *)
          end
      | EBin And a b =>
          eval_expr fuel a en w kr (fun va w =>
            match va with
            | VBool true => eval_expr fuel b en w kr k
            | VBool false => k (VBool false) w
            | _ => (Stuck "&& on non-boolean", w)
            end)
      | EBin Or a b =>
          eval_expr fuel a en w kr (fun va w =>
            match va with
            | VBool false => eval_expr fuel b en w kr k
            | VBool true => k (VBool true) w
            | _ => (Stuck "|| on non-boolean", w)
            end)
      | EBin op a b =>
          eval_expr fuel a en w kr (fun va w =>
            eval_expr fuel b en w kr (fun vb w =>
              (* two raw pointers: the world decides the address order.  (The choice is a
                 function applied to w and k so that k occurs once: symbolic evaluation with a
                 not-yet-known operand must not duplicate the continuation.) *)
              (if both_ptr va vb then prim (ptr_cmp_name op) [va; vb]
               else fun w k => kont (binop_val op va vb) w k) w k))
      | ENot a =>
          eval_expr fuel a en w kr (fun va w =>
            match va with
            | VBool b => k (VBool (negb b)) w
            | _ => (Stuck "! on non-boolean", w)
            end)
      | EIf c t e =>
          eval_expr fuel c en w kr (fun vc w =>
            match vc with
            | VBool true => eval_eblock fuel t en w kr k
            | VBool false =>
                match e with
                | Some b => eval_eblock fuel b en w kr k
                | None => k VUnit w
                end
            | _ => (Stuck "if on non-boolean", w)
            end)
      | EMatch s arms =>
          eval_expr fuel s en w kr (fun v w => eval_arms fuel v arms en w kr k)
      | ECall f args =>
          eval_args fuel args en w kr (fun vs w =>
            match called_closure f en with
            | Some c => prim "call" (c :: vs) w k          (* a closure parameter is called: the world runs it *)
            | None =>
            match builtin f vs with
            | Some o => kont o w k
            | None =>
                match funs f with
                | Some fa =>
                    exec_block fuel (fn_body fa) (rev (combine (fn_params fa) vs)) w k (fun v _ w => k v w)
                | None => prim f vs w k
                end
            end
            end)
      | EField a f =>
          eval_expr fuel a en w kr (fun va w =>
            match va with
            | VStruct _ fs =>
                match lookup f fs with
                | Some v => k v w
                | None => (Stuck "no such field", w)
                end
            | v => prim ("field:" ++ f)%string [v] w k
            end)
      | ETuple es => eval_args fuel es en w kr (fun vs w => k (VTuple vs) w)
      | EStruct name fs => eval_fields fuel fs en w kr (fun vs w => k (VStruct name vs) w)
      | EBlock b => eval_eblock fuel b en w kr k
      | EForeign t => (Stuck ("foreign: " ++ t)%string, w)
      end
    end

  (* a block in expression position *)
  with eval_eblock (fuel : nat) (b : block) (en : env) (w : W) (kr k : KV) {struct fuel} : Ans :=
    match fuel with
    | O => (NoFuel, w)
    | S fuel =>
        if block_assigns b then (Stuck "assignment inside an expression block", w)
        else exec_block fuel b en w kr (fun v _ w => k v w)
    end

  with eval_args (fuel : nat) (es : list expr) (en : env) (w : W) (kr : KV) (k : list val -> W -> Ans)
       {struct fuel} : Ans :=
    match fuel with
    | O => (NoFuel, w)
    | S fuel =>
      match es with
      | [] => k [] w
      | e :: es =>
          eval_expr fuel e en w kr (fun v w => eval_args fuel es en w kr (fun vs w => k (v :: vs) w))
      end
    end

  with eval_fields (fuel : nat) (fs : list (string * expr)) (en : env) (w : W) (kr : KV)
       (k : list (string * val) -> W -> Ans) {struct fuel} : Ans :=
    match fuel with
    | O => (NoFuel, w)
    | S fuel =>
      match fs with
      | [] => k [] w
      | (f, e) :: fs =>
          eval_expr fuel e en w kr (fun v w => eval_fields fuel fs en w kr (fun vs w => k ((f, v) :: vs) w))
      end
    end

  with eval_arms (fuel : nat) (v : val) (arms : list (pat * expr)) (en : env) (w : W) (kr k : KV)
       {struct fuel} : Ans :=
    match fuel with
    | O => (NoFuel, w)
    | S fuel =>
      match arms with
      | [] => (Stuck "match: no arm applies", w)
      | (p, body) :: arms =>
          match match_pat p v with
          | Some bs => eval_expr fuel body (bs ++ en) w kr k
          | None => eval_arms fuel v arms en w kr k
          end
      end
    end

  with exec_block (fuel : nat) (b : block) (en : env) (w : W) (kr : KV) (k : val -> env -> W -> Ans)
       {struct fuel} : Ans :=
    match fuel with
    | O => (NoFuel, w)
    | S fuel =>
      match b with
      | Blk ss tail =>
          exec_stmts fuel ss en w kr (fun en' w =>
            match tail with
            | Some e => eval_expr fuel e en' w kr (fun v w => k v (restore en en') w)
            | None => k VUnit (restore en en') w
            end)
      end
    end

  with exec_stmts (fuel : nat) (ss : list stmt) (en : env) (w : W) (kr : KV) (k : env -> W -> Ans)
       {struct fuel} : Ans :=
    match fuel with
    | O => (NoFuel, w)
    | S fuel =>
      match ss with
      | [] => k en w
      | s :: ss => exec_stmt fuel s en w kr (fun en w => exec_stmts fuel ss en w kr k)
      end
    end

  with exec_stmt (fuel : nat) (s : stmt) (en : env) (w : W) (kr : KV) (k : env -> W -> Ans)
       {struct fuel} : Ans :=
    match fuel with
    | O => (NoFuel, w)
    | S fuel =>
      match s with
      | SLet xs e =>
          eval_expr fuel e en w kr (fun v w =>
            match bind_names xs v with
            | Some bs => k (bs ++ en) w
            | None => (Stuck "let: pattern does not fit the value", w)
            end)
      | SAssign x e =>
          eval_expr fuel e en w kr (fun v w =>
            match update x v en with
            | Some en' => k en' w
            | None =>
                (* not a local: an assignment to a place of the world, e.g. "self.buf" *)
                prim ("set:" ++ x)%string (v :: match lookup "self" en with Some s => [s] | None => [] end) w
                     (fun _ w => k en w)
            end)
      | SOpAssign op x e =>
          eval_expr fuel e en w kr (fun v w =>
            match lookup x en with
            | Some old =>
                kont (binop_val op old v) w (fun r w =>
                  match update x r en with
                  | Some en' => k en' w
                  | None => (Stuck "op-assign: update", w)
                  end)
            | None => (Stuck "op-assign to a non-local", w)
            end)
      | SExpr (EIf c t e) =>
          (* statement-level if: its blocks may assign to outer variables *)
          eval_expr fuel c en w kr (fun vc w =>
            match vc with
            | VBool true => exec_block fuel t en w kr (fun _ en w => k en w)
            | VBool false =>
                match e with
                | Some b => exec_block fuel b en w kr (fun _ en w => k en w)
                | None => k en w
                end
            | _ => (Stuck "if on non-boolean", w)
            end)
      | SExpr (EBlock b) => exec_block fuel b en w kr (fun _ en w => k en w)
      | SExpr e => eval_expr fuel e en w kr (fun _ w => k en w)
      | SWhile c body =>
          eval_expr fuel c en w kr (fun vc w =>
            match vc with
            | VBool true =>
                exec_block fuel body en w kr (fun _ en w => exec_stmt fuel (SWhile c body) en w kr k)
            | VBool false => k en w
            | _ => (Stuck "while on non-boolean", w)
            end)
      | SReturn None => kr VUnit w
      | SReturn (Some e) => eval_expr fuel e en w kr kr
      | SPanic _ => (Panic, w)
      | SDebugAssert e =>
          if release cfg then k en w
          else eval_expr fuel e en w kr (fun v w =>
                 match v with
                 | VBool true => k en w
                 | VBool false => (Panic, w)
                 | _ => (Stuck "debug_assert on non-boolean", w)
                 end)
      | SForeign t => (Stuck ("foreign: " ++ t)%string, w)
      end
    end.

  (* run a whole function *)
  Definition eval_fn (fuel : nat) (fa : fn_ast) (args : list val) (w : W) : Ans :=
    exec_block fuel (fn_body fa) (rev (combine (fn_params fa) args)) w
               (fun v w => (Norm v, w)) (fun v _ w => (Norm v, w)).
End Eval.

(* a world handler given in direct style *)
Definition direct {F W : Type} (p : string -> list val -> W -> outcome F val * W)
  : string -> list val -> W -> (val -> W -> outcome F val * W) -> outcome F val * W :=
  fun f vs w k => match p f vs w with
                  | (Norm v, w') => k v w'
                  | r => r
                  end.

Arguments eval_fn {F W}.
Arguments eval_expr {F W}.
Arguments exec_block {F W}.
Arguments exec_stmt {F W}.
