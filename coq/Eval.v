(* Eval.v -- semantics of the IR of Ast.v.  Fixed file (part of the trusted
   base: it is the meaning given to the syntax that rs2v dumps).

   - usize arithmetic: in the Debug profile + - * panic on overflow/underflow,
     in the Release profile they wrap modulo 2^64; / and % panic on zero in both.
   - debug_assert! fires only in the Debug profile.
   - `while` and calls consume fuel; exhaustion is the distinguished outcome
     NoFuel (a non-terminating loop shows up as NoFuel for every fuel).
   - everything the evaluator does not know (methods of the vector, allocator
     calls, ...) is delegated to a handler `prim` supplied by the model
     (Machine.v instantiates it with its checked primitives). *)
From Coq Require Import ZArith List String Bool Lia.
From MV Require Import Ast.
Import ListNotations.
Open Scope string_scope.
Open Scope list_scope.
Open Scope Z_scope.

Definition W64 : Z := 18446744073709551616.       (* 2^64 *)
Definition USIZE_MAX : Z := 18446744073709551615.
Definition ISIZE_MAX : Z := 9223372036854775807.
Definition HEADER_SIZE : Z := 24.
Definition HEADER_ALIGN : Z := 8.

Inductive val :=
| VInt (n : Z)
| VBool (b : bool)
| VUnit
| VTuple (vs : list val)
| VCtor (c : string) (args : list val)
| VObj (id : nat)                       (* a vector / pointer object of the world *)
| VStruct (name : string) (fs : list (string * val)).

(* parameters of the element type and the build profile *)
Record tcfg := {
  esz : Z;              (* size_of::<T>()  *)
  ealign : Z;           (* align_of::<T>() *)
  needs_drop : bool;    (* core::mem::needs_drop::<T>() *)
  release : bool        (* true: optimized build (wrapping arithmetic, no debug_assert) *)
}.

Inductive outcome (F A : Type) :=
| Norm (a : A)
| Ret (v : val)          (* `return v` travelling to the function boundary *)
| Panic
| Fail (f : F)           (* failure reported by the world (UB kind, alloc abort ...) *)
| Stuck (why : string)   (* IR construct without semantics: translator/evaluator gap *)
| NoFuel.
Arguments Norm {F A}. Arguments Ret {F A}. Arguments Panic {F A}.
Arguments Fail {F A}. Arguments Stuck {F A}. Arguments NoFuel {F A}.

Definition is_pow2 (a : Z) : bool :=
  (0 <? a) && (Z.land a (a - 1) =? 0).

(* Layout::from_size_align: Ok iff align is a power of two and size, rounded
   up to align, does not exceed isize::MAX *)
Definition layout_ok (size align : Z) : bool :=
  is_pow2 align && (size <=? ISIZE_MAX - (align - 1)).

Section Eval.
  Variable F : Type.             (* world failures *)
  Variable W : Type.             (* world state    *)
  Variable cfg : tcfg.
  Variable funs : string -> option fn_ast.
  Variable prim : string -> list val -> W -> outcome F val * W.

  Definition env := list (string * val).

  Fixpoint lookup (x : string) (e : env) : option val :=
    match e with
    | [] => None
    | (y, v) :: e' => if String.eqb x y then Some v else lookup x e'
    end.

  Fixpoint update (x : string) (v : val) (e : env) : option env :=
    match e with
    | [] => None
    | (y, w) :: e' =>
        if String.eqb x y then Some ((y, v) :: e')
        else match update x v e' with Some e'' => Some ((y, w) :: e'') | None => None end
    end.

  Definition arith (op : binop) (a b : Z) : outcome F val :=
    match op with
    | Add => let r := a + b in
             if r <? W64 then Norm (VInt r)
             else if release cfg then Norm (VInt (r - W64)) else Panic
    | Sub => let r := a - b in
             if 0 <=? r then Norm (VInt r)
             else if release cfg then Norm (VInt (r + W64)) else Panic
    | Mul => let r := a * b in
             if r <? W64 then Norm (VInt r)
             else if release cfg then Norm (VInt (r mod W64)) else Panic
    | Div => if b =? 0 then Panic else Norm (VInt (a / b))
    | Rem => if b =? 0 then Panic else Norm (VInt (a mod b))
    | Eq => Norm (VBool (a =? b))
    | Ne => Norm (VBool (negb (a =? b)))
    | Lt => Norm (VBool (a <? b))
    | Le => Norm (VBool (a <=? b))
    | Gt => Norm (VBool (b <? a))
    | Ge => Norm (VBool (b <=? a))
    | And | Or => Stuck "arith: boolean operator on integers"
    end.

  Definition binop_val (op : binop) (a b : val) : outcome F val :=
    match a, b with
    | VInt x, VInt y => arith op x y
    | VBool x, VBool y =>
        match op with
        | And => Norm (VBool (x && y))
        | Or => Norm (VBool (x || y))
        | Eq => Norm (VBool (Bool.eqb x y))
        | Ne => Norm (VBool (negb (Bool.eqb x y)))
        | _ => Stuck "binop on booleans"
        end
    | VObj x, VObj y =>
        match op with
        | Eq => Norm (VBool (Nat.eqb x y))
        | Ne => Norm (VBool (negb (Nat.eqb x y)))
        | _ => Stuck "binop on objects"
        end
    | _, _ => Stuck "binop: operand kinds"
    end.

  (* calls whose meaning does not depend on the world *)
  Definition builtin (f : string) (args : list val) : option (outcome F val) :=
    match f, args with
    | "size_of::<T>", [] => Some (Norm (VInt (esz cfg)))
    | "align_of::<T>", [] => Some (Norm (VInt (ealign cfg)))
    | "size_of::<Header>", [] => Some (Norm (VInt HEADER_SIZE))
    | "align_of::<Header>", [] => Some (Norm (VInt HEADER_ALIGN))
    | "size_of::<I::Item>", [] => Some (Norm (VInt (esz cfg)))
    | "needs_drop::<T>", [] => Some (Norm (VBool (needs_drop cfg)))
    | "max", [VInt a; VInt b] => Some (Norm (VInt (Z.max a b)))
    | "min", [VInt a; VInt b] => Some (Norm (VInt (Z.min a b)))
    | ".max", [VInt a; VInt b] => Some (Norm (VInt (Z.max a b)))
    | ".min", [VInt a; VInt b] => Some (Norm (VInt (Z.min a b)))
    | ".checked_add", [VInt a; VInt b] =>
        Some (Norm (if a + b <? W64 then VCtor "Some" [VInt (a + b)] else VCtor "None" []))
    | ".checked_sub", [VInt a; VInt b] =>
        Some (Norm (if 0 <=? a - b then VCtor "Some" [VInt (a - b)] else VCtor "None" []))
    | ".checked_mul", [VInt a; VInt b] =>
        Some (Norm (if a * b <? W64 then VCtor "Some" [VInt (a * b)] else VCtor "None" []))
    | ".is_power_of_two", [VInt a] => Some (Norm (VBool (is_pow2 a)))
    | ".expect", [VCtor "Some" [v]; _] => Some (Norm v)
    | ".expect", [VCtor "Ok" [v]; _] => Some (Norm v)
    | ".expect", [VCtor "None" []; _] => Some Panic
    | ".expect", [VCtor "Err" _; _] => Some Panic
    | ".unwrap", [VCtor "Some" [v]] => Some (Norm v)
    | ".unwrap", [VCtor "Ok" [v]] => Some (Norm v)
    | ".unwrap", [VCtor "None" []] => Some Panic
    | ".unwrap", [VCtor "Err" _] => Some Panic
    | ".is_none", [VCtor "None" []] => Some (Norm (VBool true))
    | ".is_none", [VCtor "Some" _] => Some (Norm (VBool false))
    | ".is_some", [VCtor "None" []] => Some (Norm (VBool false))
    | ".is_some", [VCtor "Some" _] => Some (Norm (VBool true))
    | "Layout::from_size_align", [VInt s; VInt a] =>
        Some (Norm (if layout_ok s a then VCtor "Ok" [VCtor "Layout" [VInt s; VInt a]]
                    else VCtor "Err" []))
    | ".size", [VCtor "Layout" [s; _]] => Some (Norm s)
    | ".align", [VCtor "Layout" [_; a]] => Some (Norm a)
    | "Some", [v] => Some (Norm (VCtor "Some" [v]))
    | "Ok", [v] => Some (Norm (VCtor "Ok" [v]))
    | "Err", [v] => Some (Norm (VCtor "Err" [v]))
    | ".cmp", [VInt a; VInt b] =>
        Some (Norm (VCtor (if a <? b then "Less" else if a =? b then "Equal" else "Greater") []))
    | _, _ => None
    end.

  Definition match_pat (p : pat) (v : val) : option env :=
    match p, v with
    | PWild, _ => Some []
    | PBind x, _ => Some [(x, v)]
    | PLit n, VInt m => if n =? m then Some [] else None
    | PRange lo hi, VInt m => if (lo <=? m) && (m <=? hi) then Some [] else None
    | PCtor c xs, VCtor d args =>
        if String.eqb c d && Nat.eqb (List.length xs) (List.length args)
        then Some (combine xs args) else None
    | _, _ => None
    end.

  Definition bind_names (xs : list string) (v : val) : option env :=
    match xs, v with
    | [x], _ => Some [(x, v)]
    | _, VTuple vs => if Nat.eqb (List.length xs) (List.length vs) then Some (rev (combine xs vs)) else None
    | _, _ => None
    end.

  Definition restore (before after : env) : env :=
    skipn (List.length after - List.length before) after.

  (* Expressions return (outcome, world); only statements and blocks thread the environment.
     (A block in EXPRESSION position may declare locals but must not assign to outer variables:
     `assigns` rejects it as Stuck.  This keeps the environment out of the results of world calls,
     so that symbolic evaluation of a body stays linear in its size.) *)
  Definition RE (A : Type) : Type := outcome F A * W.
  Definition Ans : Type := outcome F val * W.

  Definition reout {A B} (o : outcome F A) : outcome F B :=
    match o with
    | Norm _ => Stuck "reout"
    | Ret v => Ret v | Panic => Panic | Fail x => Fail x | Stuck s => Stuck s | NoFuel => NoFuel
    end.

  (* does a statement list assign to a variable it did not declare?  (syntactic, shallow: nested
     expression blocks are checked when they are evaluated) *)
  Fixpoint assigns (ss : list stmt) : bool :=
    match ss with
    | [] => false
    | SAssign _ _ :: _ => true
    | SOpAssign _ _ _ :: _ => true
    | SWhile _ _ :: _ => true
    | _ :: ss => assigns ss
    end.
  Definition block_assigns (b : block) : bool := match b with Blk ss _ => assigns ss end.

  Fixpoint eval_expr (fuel : nat) (e : expr) (en : env) (w : W) {struct fuel} : RE val :=
    match fuel with
    | O => (NoFuel, w)
    | S fuel =>
      match e with
      | ELit n => (Norm (VInt n), w)
      | EBool b => (Norm (VBool b), w)
      | EUnit => (Norm VUnit, w)
      | EVar x =>
          match lookup x en with
          | Some v => (Norm v, w)
          | None => (Norm (VCtor x []), w)      (* unit-like constructor / constant path *)
          end
      | EBin And a b =>
          match eval_expr fuel a en w with
          | (Norm (VBool true), w) => eval_expr fuel b en w
          | (Norm (VBool false), w) => (Norm (VBool false), w)
          | (Norm _, w) => (Stuck "&& on non-boolean", w)
          | r => r
          end
      | EBin Or a b =>
          match eval_expr fuel a en w with
          | (Norm (VBool false), w) => eval_expr fuel b en w
          | (Norm (VBool true), w) => (Norm (VBool true), w)
          | (Norm _, w) => (Stuck "|| on non-boolean", w)
          | r => r
          end
      | EBin op a b =>
          match eval_expr fuel a en w with
          | (Norm va, w) =>
              match eval_expr fuel b en w with
              | (Norm vb, w) => (binop_val op va vb, w)
              | r => r
              end
          | r => r
          end
      | ENot a =>
          match eval_expr fuel a en w with
          | (Norm (VBool b), w) => (Norm (VBool (negb b)), w)
          | (Norm _, w) => (Stuck "! on non-boolean", w)
          | r => r
          end
      | EIf c t e =>
          match eval_expr fuel c en w with
          | (Norm (VBool true), w) => eval_eblock fuel t en w
          | (Norm (VBool false), w) =>
              match e with
              | Some b => eval_eblock fuel b en w
              | None => (Norm VUnit, w)
              end
          | (Norm _, w) => (Stuck "if on non-boolean", w)
          | r => r
          end
      | EMatch s arms =>
          match eval_expr fuel s en w with
          | (Norm v, w) => eval_arms fuel v arms en w
          | r => r
          end
      | ECall f args =>
          match eval_args fuel args en w with
          | (Norm vs, w) =>
              match builtin f vs with
              | Some o => (o, w)
              | None =>
                  match funs f with
                  | Some fa =>
                      match exec_block fuel (fn_body fa) (rev (combine (fn_params fa) vs)) w
                                       (fun v _ w => (Norm v, w)) with
                      | (Ret v, w) => (Norm v, w)
                      | r => r
                      end
                  | None => prim f vs w
                  end
              end
          | (o, w) => (reout o, w)
          end
      | EField a f =>
          match eval_expr fuel a en w with
          | (Norm (VStruct _ fs), w) =>
              match lookup f fs with
              | Some v => (Norm v, w)
              | None => (Stuck "no such field", w)
              end
          | (Norm v, w) => prim ("field:" ++ f)%string [v] w
          | r => r
          end
      | ETuple es =>
          match eval_args fuel es en w with
          | (Norm vs, w) => (Norm (VTuple vs), w)
          | (o, w) => (reout o, w)
          end
      | EStruct name fs =>
          match eval_fields fuel fs en w with
          | (Norm vs, w) => (Norm (VStruct name vs), w)
          | (o, w) => (reout o, w)
          end
      | EBlock b => eval_eblock fuel b en w
      | EForeign t => (Stuck ("foreign: " ++ t)%string, w)
      end
    end

  (* a block in expression position *)
  with eval_eblock (fuel : nat) (b : block) (en : env) (w : W) {struct fuel} : RE val :=
    match fuel with
    | O => (NoFuel, w)
    | S fuel =>
        if block_assigns b then (Stuck "assignment inside an expression block", w)
        else exec_block fuel b en w (fun v _ w => (Norm v, w))
    end

  with eval_args (fuel : nat) (es : list expr) (en : env) (w : W) {struct fuel} : RE (list val) :=
    match fuel with
    | O => (NoFuel, w)
    | S fuel =>
      match es with
      | [] => (Norm [], w)
      | e :: es =>
          match eval_expr fuel e en w with
          | (Norm v, w) =>
              match eval_args fuel es en w with
              | (Norm vs, w) => (Norm (v :: vs), w)
              | r => r
              end
          | (o, w) => (reout o, w)
          end
      end
    end

  with eval_fields (fuel : nat) (fs : list (string * expr)) (en : env) (w : W) {struct fuel}
    : RE (list (string * val)) :=
    match fuel with
    | O => (NoFuel, w)
    | S fuel =>
      match fs with
      | [] => (Norm [], w)
      | (f, e) :: fs =>
          match eval_expr fuel e en w with
          | (Norm v, w) =>
              match eval_fields fuel fs en w with
              | (Norm vs, w) => (Norm ((f, v) :: vs), w)
              | r => r
              end
          | (o, w) => (reout o, w)
          end
      end
    end

  with eval_arms (fuel : nat) (v : val) (arms : list (pat * expr)) (en : env) (w : W)
       {struct fuel} : RE val :=
    match fuel with
    | O => (NoFuel, w)
    | S fuel =>
      match arms with
      | [] => (Stuck "match: no arm applies", w)
      | (p, body) :: arms =>
          match match_pat p v with
          | Some bs => eval_expr fuel body (bs ++ en) w
          | None => eval_arms fuel v arms en w
          end
      end
    end

  (* Blocks and statements are evaluated in continuation-passing style with respect to the
     environment: `k` receives the environment and the world after a NORMAL completion; every other
     outcome (return, panic, failure) is the answer at once.  (So the environment never travels
     through the result of a world call.) *)
  with exec_block (fuel : nat) (b : block) (en : env) (w : W) (k : val -> env -> W -> Ans)
       {struct fuel} : Ans :=
    match fuel with
    | O => (NoFuel, w)
    | S fuel =>
      match b with
      | Blk ss tail =>
          exec_stmts fuel ss en w (fun en' w =>
            match tail with
            | Some e =>
                match eval_expr fuel e en' w with
                | (Norm v, w) => k v (restore en en') w
                | r => r
                end
            | None => k VUnit (restore en en') w
            end)
      end
    end

  with exec_stmts (fuel : nat) (ss : list stmt) (en : env) (w : W) (k : env -> W -> Ans)
       {struct fuel} : Ans :=
    match fuel with
    | O => (NoFuel, w)
    | S fuel =>
      match ss with
      | [] => k en w
      | s :: ss => exec_stmt fuel s en w (fun en w => exec_stmts fuel ss en w k)
      end
    end

  with exec_stmt (fuel : nat) (s : stmt) (en : env) (w : W) (k : env -> W -> Ans)
       {struct fuel} : Ans :=
    match fuel with
    | O => (NoFuel, w)
    | S fuel =>
      match s with
      | SLet xs e =>
          match eval_expr fuel e en w with
          | (Norm v, w) =>
              match bind_names xs v with
              | Some bs => k (bs ++ en) w
              | None => (Stuck "let: pattern does not fit the value", w)
              end
          | r => r
          end
      | SAssign x e =>
          match eval_expr fuel e en w with
          | (Norm v, w) =>
              match update x v en with
              | Some en' => k en' w
              | None =>
                  (* not a local: an assignment to a place of the world, e.g. "self.buf" *)
                  match prim ("set:" ++ x)%string (v :: match lookup "self" en with Some s => [s] | None => [] end) w with
                  | (Norm _, w) => k en w
                  | r => r
                  end
              end
          | r => r
          end
      | SOpAssign op x e =>
          match eval_expr fuel e en w with
          | (Norm v, w) =>
              match lookup x en with
              | Some old =>
                  match binop_val op old v with
                  | Norm r =>
                      match update x r en with
                      | Some en' => k en' w
                      | None => (Stuck "op-assign: update", w)
                      end
                  | o => (o, w)
                  end
              | None => (Stuck "op-assign to a non-local", w)
              end
          | r => r
          end
      | SExpr (EIf c t e) =>
          (* statement-level if: its blocks may assign to outer variables *)
          match eval_expr fuel c en w with
          | (Norm (VBool true), w) => exec_block fuel t en w (fun _ en w => k en w)
          | (Norm (VBool false), w) =>
              match e with
              | Some b => exec_block fuel b en w (fun _ en w => k en w)
              | None => k en w
              end
          | (Norm _, w) => (Stuck "if on non-boolean", w)
          | r => r
          end
      | SExpr (EBlock b) => exec_block fuel b en w (fun _ en w => k en w)
      | SExpr e =>
          match eval_expr fuel e en w with
          | (Norm _, w) => k en w
          | r => r
          end
      | SWhile c body =>
          match eval_expr fuel c en w with
          | (Norm (VBool true), w) =>
              exec_block fuel body en w (fun _ en w => exec_stmt fuel (SWhile c body) en w k)
          | (Norm (VBool false), w) => k en w
          | (Norm _, w) => (Stuck "while on non-boolean", w)
          | r => r
          end
      | SReturn None => (Ret VUnit, w)
      | SReturn (Some e) =>
          match eval_expr fuel e en w with
          | (Norm v, w) => (Ret v, w)
          | r => r
          end
      | SPanic _ => (Panic, w)
      | SDebugAssert e =>
          if release cfg then k en w
          else match eval_expr fuel e en w with
               | (Norm (VBool true), w) => k en w
               | (Norm (VBool false), w) => (Panic, w)
               | (Norm _, w) => (Stuck "debug_assert on non-boolean", w)
               | r => r
               end
      | SForeign t => (Stuck ("foreign: " ++ t)%string, w)
      end
    end.

  (* run a whole function: `Ret v` at the boundary becomes the result *)
  Definition eval_fn (fuel : nat) (fa : fn_ast) (args : list val) (w : W) : outcome F val * W :=
    match exec_block fuel (fn_body fa) (rev (combine (fn_params fa) args)) w
                     (fun v _ w => (Norm v, w)) with
    | (Ret v, w) => (Norm v, w)
    | r => r
    end.
End Eval.

Arguments eval_fn {F W}.
Arguments eval_expr {F W}.
Arguments exec_block {F W}.
Arguments exec_stmt {F W}.
