(* EquivDrop.v -- re-proved on every run against the AST regenerated from src/drop.rs: the body of
   `impl Drop for MiniVec<T>` evaluates to Machine.drop_body -- the never-allocated early return, the
   header read, drop_in_place over exactly `len` elements, dealloc quoting make_layout(cap, alignment)
   read from the header -- for every state and both profiles.  (That the vector's NAME is gone
   afterwards, whether or not a destructor panicked, is Rust's drop glue: Machine.drop_vec.) *)
From Coq Require Import ZArith List String Bool Lia.
From MV Require Import Ast Eval Scalar Machine EquivDefs Prims EquivTac.
From MV.Gen Require Import AstGen.
Import ListNotations.
Open Scope string_scope.
Open Scope Z_scope.

Section S.
  Variable cfg : tcfg.
  Variable ncap : Z -> option Z.
  Local Notation runm := (runm cfg ncap).

  Lemma drop_equiv v s :
    runm drop__MiniVec__drop_ast [VObj v] s = lift_m (drop_body cfg v) vunit s.
  Proof.
    unfold runm. evm.
    cbv [drop_body bind ret lift_m vunit lift_opt panic layout_val header_val fst snd].
    sym.
  Qed.
End S.
