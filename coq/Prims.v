(* Prims.v -- the world that the IR evaluator runs in when it evaluates the methods of MiniVec:
   the machine's state, and a handler mapping the method / allocator / pointer primitives that occur
   in the translated bodies to the machine's CHECKED primitives.  With it, `eval grow_ast` and the
   like become machine computations, and EquivCap.v proves them equal to the hand-written
   Machine.grow etc. on every run. *)
From Coq Require Import ZArith List String Bool.
From MV Require Import Ast Eval Scalar Machine.
Import ListNotations.
Open Scope string_scope.
Open Scope list_scope.
Open Scope Z_scope.

Inductive mfail := FUB (k : ubkind) | FAllocAbort (s a : Z) | FAbort | FNoFuel.

Definition lift_m {A} (m : M A) (f : A -> val) : state -> outcome mfail val * state :=
  fun s => match m s with
           | (Val a, s') => (Norm (f a), s')
           | (Panicking, s') => (Panic, s')
           | (UB k, s') => (Fail (FUB k), s')
           | (AllocAbort x y, s') => (Fail (FAllocAbort x y), s')
           | (Abort, s') => (Fail FAbort, s')
           | (OutOfFuel, s') => (Fail FNoFuel, s')
           end.

Definition vunit {A} (_ : A) : val := VUnit.
Definition header_val (x : nat * block) : val :=
  VStruct "Header" [("len", VInt (h_len (snd x))); ("cap", VInt (h_cap (snd x))); ("alignment", VInt (h_align (snd x)))].
Definition layout_val (l : Z * Z) : val := VCtor "Layout" [VInt (fst l); VInt (snd l)].
Definition ptr_val (o : option nat) : val :=
  match o with Some b => VCtor "Block" [VObj b] | None => VCtor "Null" [] end.

Section Prims.
  Variable cfg : tcfg.
  Variable ncap : Z -> option Z.

  Definition prim (f : string) (args : list val) : state -> outcome mfail val * state :=
    match f, args with
    (* the methods of the vector that translated bodies call *)
    | ".is_default", [VObj v] => lift_m (is_default v) VBool
    | ".len", [VObj v] => lift_m (len v) VInt
    | ".capacity", [VObj v] => lift_m (capacity v) VInt
    | ".alignment", [VObj v] => lift_m (alignment cfg v) VInt
    | ".header", [VObj v] => lift_m (bind (vec_handle v) hdr_block) header_val
    | ".grow", [VObj v; VInt c; VInt a] => lift_m (grow cfg v c a) vunit
    | ".reserve_exact", [VObj v; VInt n] => lift_m (reserve_exact cfg v n) vunit
    | ".shrink_to_fit", [VObj v] => lift_m (shrink_to_fit cfg v) vunit
    (* the crate's scalar helpers: by their Scalar twins (Equiv.v proves each helper's body equal to
       its twin for all machine-word arguments) *)
    | "next_capacity::<T>", [VInt c] => lift_m (lift_opt (ncap c)) VInt
    | "make_layout::<T>", [VInt c; VInt a] => lift_m (lift_opt (make_layout cfg c a)) layout_val
    | "max_align::<T>", [] => fun s => (Norm (VInt (max_align cfg)), s)
    (* the one-word handle and raw pointers *)
    | "field:buf", [VObj v] => fun s => (Norm (VCtor "Buf" [VObj v]), s)
    | ".as_ptr", [VCtor "Buf" [VObj v]] => fun s => (Norm (VCtor "BufPtr" [VObj v]), s)
    | ".is_null", [VCtor "Null" []] => fun s => (Norm (VBool true), s)
    | ".is_null", [VCtor "Block" _] => fun s => (Norm (VBool false), s)
    | ".cast::<Header>", [p] => fun s => (Norm p, s)
    | "NonNull::new_unchecked", [p] => fun s => (Norm p, s)
    (* the global allocator *)
    | "alloc", [VCtor "Layout" [VInt sz; VInt al]] => lift_m (do_alloc sz al) ptr_val
    | "realloc", [VCtor "BufPtr" [VObj v]; VCtor "Layout" [VInt os; VInt oa]; VInt ns] =>
        lift_m (bind (vec_handle v) (fun h => do_realloc h os oa ns)) ptr_val
    | "handle_alloc_error", [VCtor "Layout" [VInt sz; VInt al]] => fun s => (Fail (FAllocAbort sz al), s)
    (* ptr::write(new_buf.cast::<Header>(), header) *)
    | "write", [VCtor "Block" [VObj b]; VStruct "Header" [("len", VInt l); ("cap", VInt c); ("alignment", VInt a)]] =>
        lift_m (bind (get_block b) (fun bl =>
                  bind (if HEADER_SIZE <=? b_size bl then ret tt else ub OutOfBlock) (fun _ =>
                  put_block b (with_hdr bl l c a)))) vunit
    (* self.buf = ... *)
    | "set:self.buf", [VCtor "Block" [VObj b]; VObj v] => lift_m (set_handle v (Some (At b 0))) vunit
    | _, _ => fun s => (Stuck ("prim: " ++ f)%string, s)
    end.
End Prims.
