(* Prims.v -- the world that the IR evaluator runs in when it evaluates the methods of MiniVec:
   the machine's state, and a handler mapping the method / allocator / pointer primitives that occur
   in the translated bodies to the machine's CHECKED primitives.  With it, `eval grow_ast` and the
   like become machine computations, and EquivCap.v proves them equal to the hand-written
   Machine.grow etc. on every run. *)
From Coq Require Import ZArith List String Bool.
From MV Require Import Ast Eval Scalar Machine.
Import ListNotations.
Open Scope string_scope.
Open Scope list_scope.
Open Scope Z_scope.

Inductive mfail := FUB (k : ubkind) | FAllocAbort (s a : Z) | FAbort | FNoFuel.

Definition lift_m {A} (m : M A) (f : A -> val) : state -> outcome mfail val * state :=
  fun s => match m s with
           | (Val a, s') => (Norm (f a), s')
           | (Panicking, s') => (Panic, s')
           | (UB k, s') => (Fail (FUB k), s')
           | (AllocAbort x y, s') => (Fail (FAllocAbort x y), s')
           | (Abort, s') => (Fail FAbort, s')
           | (OutOfFuel, s') => (Fail FNoFuel, s')
           end.

(* the same in continuation-passing style (the form the evaluator calls) *)
Definition MK := (val -> state -> outcome mfail val * state)%type.
Definition lift_k {A} (m : M A) (f : A -> val) (s : state) (k : MK) : outcome mfail val * state :=
  match m s with
  | (Val a, s') => k (f a) s'
  | (Panicking, s') => (Panic, s')
  | (UB u, s') => (Fail (FUB u), s')
  | (AllocAbort x y, s') => (Fail (FAllocAbort x y), s')
  | (Abort, s') => (Fail FAbort, s')
  | (OutOfFuel, s') => (Fail FNoFuel, s')
  end.
Definition pure_k (v : val) (s : state) (k : MK) : outcome mfail val * state := k v s.

Definition vunit {A} (_ : A) : val := VUnit.
Definition header_val (x : nat * block) : val :=
  VStruct "Header" [("len", VInt (h_len (snd x))); ("cap", VInt (h_cap (snd x))); ("alignment", VInt (h_align (snd x)))].
Definition layout_val (l : Z * Z) : val := VCtor "Layout" [VInt (fst l); VInt (snd l)].
Definition ptr_val (o : option nat) : val :=
  match o with Some b => VCtor "Block" [VObj b] | None => VCtor "Null" [] end.

(* element pointers and elements as IR values *)
Definition eptr_val (p : eptr) : val := VPtr p.
Definition val_eptr (v : val) : option eptr := match v with VPtr p => Some p | _ => None end.
(* the one-word handle as a byte pointer into a block *)
Definition handle_val (h : handle) : val :=
  match h with
  | Sentinel => VCtor "SentinelPtr" []
  | At b off => VCtor "BytePtr" [VObj b; VInt off]
  end.
Definition minivec_val (h : handle) : val :=
  VStruct "MiniVec" [("buf", handle_val h); ("phantom", VCtor "PhantomData" [])].
Definition raw_parts_val (r : eptr * Z * Z) : val :=
  VTuple [VPtr (fst (fst r)); VInt (snd (fst r)); VInt (snd r)].
Definition opt_elem_val (o : option elem) : val :=
  match o with Some e => VCtor "Some" [VInt e] | None => VCtor "None" [] end.

(* a script of answers (the user's iterator of `extend`) as a value, and back *)
Definition ints_of (vs : list val) : list Z :=
  flat_map (fun x => match x with VInt e => [e] | _ => [] end) vs.
Lemma ints_of_map (sc : list Z) : ints_of (map VInt sc) = sc.
Proof. induction sc as [|a sc IH]; [reflexivity|]. unfold ints_of in *. cbn. rewrite IH. reflexivity. Qed.

(* the arguments of a constructor value of a given name *)
Definition ctor_is (c : string) (v : val) : option (list val) :=
  match v with
  | VCtor d args => if String.eqb c d then Some args else None
  | _ => None
  end.

Section Prims.
  Variable cfg : tcfg.
  Variable ncap : Z -> option Z.

  Definition stuck (f : string) (s : state) : outcome mfail val * state :=
    (Stuck ("prim: " ++ f)%string, s).

  (* Every branch is fully applied to the state and the continuation, so that symbolic evaluation
     never leaves a function-valued match behind. *)
  Definition prim (f : string) (args : list val) (s : state) (k : MK) : outcome mfail val * state :=
    let is := String.eqb f in
    (* ---- the methods of the vector that translated bodies call ---- *)
    if is ".is_default" then
      match args with [VObj v] => lift_k (is_default v) VBool s k | _ => stuck f s end
    else if is ".len" then
      match args with
      | [VObj v] => lift_k (len v) VInt s k
      | [x] => match ctor_is "Slice" x with
               | Some vs => k (VInt (Z.of_nat (List.length vs))) s
               | None => stuck f s
               end
      | _ => stuck f s
      end
    else if is ".capacity" then
      match args with [VObj v] => lift_k (capacity v) VInt s k | _ => stuck f s end
    else if is ".alignment" then
      match args with [VObj v] => lift_k (alignment cfg v) VInt s k | _ => stuck f s end
    else if is ".header" then
      match args with [VObj v] => lift_k (bind (vec_handle v) hdr_block) header_val s k | _ => stuck f s end
    else if is ".grow" then
      match args with [VObj v; VInt c; VInt a] => lift_k (grow cfg v c a) vunit s k | _ => stuck f s end
    else if is ".reserve_exact" then
      match args with [VObj v; VInt n] => lift_k (reserve_exact cfg v n) vunit s k | _ => stuck f s end
    else if is ".shrink_to_fit" then
      match args with [VObj v] => lift_k (shrink_to_fit cfg v) vunit s k | _ => stuck f s end
    else if is ".is_empty" then
      match args with [VObj v] => lift_k (is_empty v) VBool s k | _ => stuck f s end
    else if is ".reserve" then
      match args with [VObj v; VInt n] => lift_k (reserve cfg ncap v n) vunit s k | _ => stuck f s end
    else if is ".truncate" then
      match args with [VObj v; VInt n] => lift_k (truncate cfg v n) vunit s k | _ => stuck f s end
    else if is ".set_len" then
      match args with [VObj v; VInt n] => lift_k (set_len v n) vunit s k | _ => stuck f s end
    else if is ".data" then
      match args with [VObj v] => lift_k (data cfg v) eptr_val s k | _ => stuck f s end
    else if is ".as_mut_ptr" then
      match args with [VObj v] => lift_k (as_ptr cfg v) eptr_val s k | _ => stuck f s end
    else if is ".as_ptr" then
      match args with
      | [VObj v] => lift_k (as_ptr cfg v) eptr_val s k
      | [x] => match ctor_is "Buf" x with                      (* NonNull::as_ptr of the handle *)
               | Some [VObj v] => k (VCtor "BufPtr" [VObj v]) s
               | _ => match val_eptr x with                    (* NonNull<T>::as_ptr of a cursor *)
                      | Some q => k (eptr_val q) s
                      | None => stuck f s
                      end
               end
      | _ => stuck f s
      end
    (* ---- the crate's scalar helpers: by their Scalar twins (Equiv.v proves each helper's body
            equal to its twin for all machine-word arguments) ---- *)
    else if is "next_capacity::<T>" then
      match args with [VInt c] => lift_k (lift_opt (ncap c)) VInt s k | _ => stuck f s end
    else if is "make_layout::<T>" then
      match args with [VInt c; VInt a] => lift_k (lift_opt (make_layout cfg c a)) layout_val s k | _ => stuck f s end
    else if is "max_align::<T>" then
      match args with [] => k (VInt (max_align cfg)) s | _ => stuck f s end
    else if is "next_aligned" then
      match args with [VInt n; VInt a] => lift_k (lift_opt (next_aligned n a)) VInt s k | _ => stuck f s end
    (* ---- the one-word handle and raw pointers ---- *)
    else if is "field:buf" then
      match args with [VObj v] => k (VCtor "Buf" [VObj v]) s | _ => stuck f s end
    else if is ".is_null" then
      match args with
      | [VPtr p] => k (VBool (match p with PNull => true | _ => false end)) s
      | [x] => match ctor_is "Null" x, ctor_is "Block" x with
               | Some [], _ => k (VBool true) s
               | _, Some _ => k (VBool false) s
               | _, _ => stuck f s
               end
      | _ => stuck f s
      end
    else if is ".cast::<Header>" || is ".cast::<T>" || is "NonNull::new_unchecked" then
      match args with [p] => k p s | _ => stuck f s end
    else if is "ManuallyDrop::new" then
      match args with [x] => k x s | _ => stuck f s end
    else if is ".cast::<u8>" then
      match args with
      | [VPtr p] => lift_k (byte_of cfg p) (fun x => VCtor "BytePtr" [VObj (fst x); VInt (snd x)]) s k
      | _ => stuck f s
      end
    else if is ".sub" then
      match args with
      | [p; VInt n] => match ctor_is "BytePtr" p with
                       | Some [VObj b; VInt o] => k (VCtor "BytePtr" [VObj b; VInt (o - n)]) s
                       | _ => match val_eptr p with            (* element pointer: back n elements *)
                              | Some q => k (eptr_val (padd cfg q (- n))) s
                              | None => stuck f s
                              end
                       end
      | _ => stuck f s
      end
    else if is "field:len" || is "field:cap" then
      (* the len / cap words of the header, read through a rebuilt handle *)
      match args with
      | [p] => match ctor_is "BytePtr" p with
               | Some [VObj b; VInt o] =>
                   lift_k (hdr_block (At b o)) (fun x => VInt (if is "field:len" then h_len (snd x) else h_cap (snd x))) s k
               | _ => match ctor_is "HeaderMut" p with         (* through header_mut() *)
                      | Some [VObj v] => if is "field:len" then lift_k (len v) VInt s k else lift_k (capacity v) VInt s k
                      | _ => stuck f s
                      end
               end
      | _ => stuck f s
      end
    else if is "null" || is "null_mut" then
      match args with [] => k (eptr_val PNull) s | _ => stuck f s end
    else if is ".add" then
      (* `.add` on the buffer pointer is where the handle is read (buf + count bytes) *)
      match args with
      | [p; VInt n] =>
          match val_eptr p with
          | Some q => k (eptr_val (padd cfg q n)) s
          | None =>
              match ctor_is "BufPtr" p with
              | Some [VObj v] =>
                  lift_k (bind (vec_handle v) (fun h =>
                            ret (match h with Sentinel => PWild | At b off => PElt b (off + n) 0 end))) eptr_val s k
              | _ => stuck f s
              end
          end
      | _ => stuck f s
      end
    (* ---- the global allocator ---- *)
    else if is "alloc" then
      match args with
      | [l] => match ctor_is "Layout" l with
               | Some [VInt sz; VInt al] => lift_k (do_alloc sz al) ptr_val s k
               | _ => stuck f s
               end
      | _ => stuck f s
      end
    else if is "realloc" then
      match args with
      | [p; l; VInt ns] =>
          match ctor_is "BufPtr" p, ctor_is "Layout" l with
          | Some [VObj v], Some [VInt os; VInt oa] =>
              lift_k (bind (vec_handle v) (fun h => do_realloc h os oa ns)) ptr_val s k
          | _, _ => stuck f s
          end
      | _ => stuck f s
      end
    else if is "handle_alloc_error" then
      match args with
      | [l] => match ctor_is "Layout" l with
               | Some [VInt sz; VInt al] => (Fail (FAllocAbort sz al), s)
               | _ => stuck f s
               end
      | _ => stuck f s
      end
    (* ---- ptr::read / write / copy / replace, the length word ---- *)
    else if is "read" then
      match args with
      | [p] => match val_eptr p with
               | Some q => lift_k (slot_read cfg q) VInt s k
               | None =>
                   (* ptr::read(self.buf.as_ptr().cast::<Header>()): the three header words *)
                   match ctor_is "BufPtr" p with
                   | Some [VObj v] => lift_k (bind (vec_handle v) hdr_block) header_val s k
                   | _ => stuck f s
                   end
               end
      | _ => stuck f s
      end
    else if is "write" then
      match args with
      | [p; VInt e] => match val_eptr p with Some q => lift_k (slot_write cfg q e) vunit s k | None => stuck f s end
      | [p; VStruct _ fs] =>
          (* ptr::write(new_buf.cast::<Header>(), Header { len, cap, alignment }) *)
          match ctor_is "Block" p, lookup "len" fs, lookup "cap" fs, lookup "alignment" fs with
          | Some [VObj b], Some (VInt l), Some (VInt c), Some (VInt a) =>
              lift_k (bind (get_block b) (fun bl =>
                        bind (if HEADER_SIZE <=? b_size bl then ret tt else ub OutOfBlock) (fun _ =>
                        put_block b (with_hdr bl l c a)))) vunit s k
          | _, _, _, _ => stuck f s
          end
      | _ => stuck f s
      end
    else if is "copy" then
      match args with
      | [p; q; VInt n] =>
          match val_eptr p, val_eptr q with
          | Some p', Some q' => lift_k (slot_copy cfg p' q' n) vunit s k
          | _, _ => stuck f s
          end
      | _ => stuck f s
      end
    else if is "copy_nonoverlapping" then
      match args with
      | [p; q; VInt n] =>
          match val_eptr p, val_eptr q with
          | Some p', Some q' => lift_k (slot_copy_across cfg p' q' n) vunit s k
          | _, _ => stuck f s
          end
      | _ => stuck f s
      end
    else if is "replace" then
      match args with
      | [p; VInt e] =>
          match val_eptr p with
          | Some q => lift_k (bind (slot_read cfg q) (fun old => bind (slot_write cfg q e) (fun _ => ret old))) VInt s k
          | None => stuck f s
          end
      | _ => stuck f s
      end
    else if is ".header_mut" then
      match args with [VObj v] => k (VCtor "HeaderMut" [VObj v]) s | _ => stuck f s end
    else if is "set_field:len" || is "add_field:len" || is "sub_field:len" then
      match args with
      | [h; VInt n] =>
          match ctor_is "HeaderMut" h with
          | Some [VObj v] =>
              if is "set_field:len" then lift_k (set_len v n) vunit s k
              else if is "add_field:len" then lift_k (add_len v n) vunit s k
              else lift_k (add_len v (- n)) vunit s k
          | _ => stuck f s
          end
      | _ => stuck f s
      end
    else if is "set:self.buf" then
      match args with
      | [p; VObj v] => match ctor_is "Block" p with
                       | Some [VObj b] => lift_k (set_handle v (Some (At b 0))) vunit s k
                       | _ => stuck f s
                       end
      | _ => stuck f s
      end
    else if is "dealloc" then
      match args with
      | [p; l] =>
          match ctor_is "BufPtr" p, ctor_is "Layout" l with
          | Some [VObj v], Some [VInt sz; VInt al] =>
              lift_k (bind (vec_handle v) (fun h => do_dealloc h sz al)) vunit s k
          | _, _ => stuck f s
          end
      | _ => stuck f s
      end
    else if is "from_raw_parts_mut" || is "slice_from_raw_parts_mut" then
      match args with [p; VInt n] => k (VCtor "SliceMut" [p; VInt n]) s | _ => stuck f s end
    else if is "drop_in_place" then
      match args with
      | [x] => match ctor_is "SliceMut" x with
               | Some [p; VInt n] =>
                   match val_eptr p with
                   | Some q => lift_k (bind (read_list cfg q n) (drop_list cfg)) vunit s k
                   | None => stuck f s
                   end
               | _ => stuck f s
               end
      | _ => stuck f s
      end
    (* ---- a local vector, indexing, cloning and pushing elements (callee methods of clone()) ---- *)
    else if is "MiniVec::new" then
      match args with [] => lift_k (new_obj cfg) VObj s k | _ => stuck f s end
    else if is "MiniVec::with_capacity" then
      (* a local vector with room for c elements: the body of with_capacity (EquivCtor.v) as a callee *)
      match args with [VInt c] => lift_k (with_capacity_body cfg c) VObj s k | _ => stuck f s end
    else if is "index" then
      match args with [VObj v; VInt i] => lift_k (index_at cfg v i) VInt s k | _ => stuck f s end
    else if is ".clone" then
      match args with [VInt e] => lift_k (clone_elem cfg e) VInt s k | _ => stuck f s end
    else if is ".push" then
      match args with [VObj v; VInt e] => lift_k (push cfg ncap v e) vunit s k | _ => stuck f s end
    (* ---- IntoIter by value (struct IntoIter { v, pos }): its slice, cloning a slice onto a vector, a new
            iterator over a vector ---- *)
    else if is ".as_slice" then
      match args with
      | [VStruct _ [(_, VObj v); (_, VPtr p); _]] =>
          lift_k (into_as_slice cfg {| i_vec := v; i_pos := p |}) (fun es => VCtor "Slice" (map VInt es)) s k
      | _ => stuck f s
      end
    else if is ".extend_from_slice" then
      match args with
      | [VObj w; sl] => match ctor_is "Slice" sl with
                        | Some vs => lift_k (extend_from_slice cfg ncap w (flat_map (fun x => match x with VInt e => [e] | _ => [] end) vs)) vunit s k
                        | None => stuck f s
                        end
      | _ => stuck f s
      end
    else if is "IntoIter::new" then
      match args with
      | [VObj w] => lift_k (make_into cfg w)
                      (fun t => VStruct "Self" [("v", VObj (i_vec t)); ("pos", eptr_val (i_pos t)); ("marker", VCtor "PhantomData" [])]) s k
      | _ => stuck f s
      end
    (* ---- the DrainFilter object: `self` of DrainFilter::next is VCtor "FIter" [VObj i] ---- *)
    else if is "field:old_len" || is "field:new_len" || (is "field:pos" && match args with [it] => match ctor_is "FIter" it with Some _ => true | None => false end | _ => false end) then
      match args with
      | [it] => match ctor_is "FIter" it with
                | Some [VObj i] =>
                    lift_k (filter_of i) (fun f => VInt (if is "field:old_len" then f_old f else if is "field:new_len" then f_new f else f_pos f)) s k
                | _ => stuck f s
                end
      | _ => stuck f s
      end
    else if is "field:vec" then
      match args with
      | [it] => match ctor_is "FIter" it with
                | Some [VObj i] => lift_k (filter_of i) (fun f => VObj (f_vec f)) s k
                | _ => stuck f s
                end
      | _ => stuck f s
      end
    else if is "set:self.panicked" then
      match args with
      | [VBool b; it] => match ctor_is "FIter" it with
                         | Some [VObj i] => lift_k (set_filter_panicked i b) vunit s k
                         | _ => stuck f s
                         end
      | _ => stuck f s
      end
    else if is "set:self.new_len" || (is "set:self.pos" && match args with [VInt _; _] => true | _ => false end) then
      match args with
      | [VInt n; it] => match ctor_is "FIter" it with
                        | Some [VObj i] => if is "set:self.new_len" then lift_k (set_filter_new i n) vunit s k
                                           else lift_k (set_filter_pos i n) vunit s k
                        | _ => stuck f s
                        end
      | _ => stuck f s
      end
    else if is "call_field:pred" then
      match args with
      | [it; p] => match ctor_is "FIter" it, val_eptr p with
                   | Some [VObj i], Some q => lift_k (filter_pred_at cfg i q) VBool s k
                   | _, _ => stuck f s
                   end
      | _ => stuck f s
      end
    (* ---- iterator objects: `self` of Drain / IntoIter methods is VCtor "Iter" [VObj i] ---- *)
    else if is "field:drain_pos_" || is "field:drain_end_" then
      match args with
      | [it] => match ctor_is "Iter" it with
                | Some [VObj i] => lift_k (drain_of i) (fun d => eptr_val (if is "field:drain_pos_" then d_pos d else d_end d)) s k
                | _ => stuck f s
                end
      | _ => stuck f s
      end
    else if is "field:v" then
      match args with
      | [it] => match ctor_is "Iter" it with
                | Some [VObj i] => lift_k (into_of i) (fun t => VObj (i_vec t)) s k
                | _ => stuck f s
                end
      | _ => stuck f s
      end
    else if is "field:pos" then
      match args with
      | [it] => match ctor_is "Iter" it with
                | Some [VObj i] => lift_k (into_of i) (fun t => eptr_val (i_pos t)) s k
                | _ => stuck f s
                end
      | _ => stuck f s
      end
    else if is "set:self.drain_pos_" || is "set:self.drain_end_" || is "set:self.pos" then
      match args with
      | [p; it] => match val_eptr p, ctor_is "Iter" it with
                   | Some q, Some [VObj i] =>
                       if is "set:self.drain_pos_" then lift_k (set_drain_pos i q) vunit s k
                       else if is "set:self.drain_end_" then lift_k (set_drain_end i q) vunit s k
                       else lift_k (set_into_pos i q) vunit s k
                   | _, _ => stuck f s
                   end
      | _ => stuck f s
      end
    (* ---- the address of the static DEFAULT_U8: the never-allocated handle ---- *)
    else if is "as::<*mutT>" || is "as::<*const_>" then
      match args with [p] => match val_eptr p with Some _ => k p s | None => stuck f s end | _ => stuck f s end
    else if is "as::<*constu8>" || is "as::<*mutu8>" then
      match args with
      | [x] => match ctor_is "DEFAULT_U8" x, ctor_is "SentinelPtr" x with
               | Some [], _ => k (handle_val Sentinel) s
               | _, Some [] => k x s
               | _, _ => stuck f s
               end
      | _ => stuck f s
      end
    (* ---- range arguments: VCtor "Range" [start bound; end bound], bounds as core::ops::Bound ---- *)
    else if is ".start_bound" || is ".end_bound" then
      match args with
      | [r] => match ctor_is "Range" r with
               | Some [sb; eb] => k (if is ".start_bound" then sb else eb) s
               | _ => stuck f s
               end
      | _ => stuck f s
      end
    else if is "NonNull::from" || is ".into_iter" then
      match args with [x] => k x s | _ => stuck f s end
    else if is "NonNull::dangling" then
      match args with [] => k (eptr_val PDangling) s | _ => stuck f s end
    (* ---- address order of two element pointers (Eval.v sends pointer comparisons here) ---- *)
    else if is "ptr:lt" || is "ptr:ge" then
      match args with
      | [p; q] => match val_eptr p, val_eptr q with
                  | Some a, Some b => lift_k (ptr_lt a b) (fun r => VBool (if is "ptr:lt" then r else negb r)) s k
                  | _, _ => stuck f s
                  end
      | _ => stuck f s
      end
    else if is "ptr:eq" || is "ptr:ne" then
      match args with
      | [p; q] => match val_eptr p, val_eptr q with
                  | Some a, Some b => lift_k (ptr_same a b) (fun r => VBool (if is "ptr:eq" then r else negb r)) s k
                  | _, _ => stuck f s
                  end
      | _ => stuck f s
      end
    else if is "as::<usize>" then
      (* a raw pointer cast to an integer stays an opaque address *)
      match args with
      | [p] => match val_eptr p with Some _ => k (VCtor "Addr" [p]) s | None => stuck f s end
      | _ => stuck f s
      end
    else if is "ptr:sub" then
      (* the byte distance of two addresses inside one object *)
      match args with
      | [x; y] => match ctor_is "Addr" x, ctor_is "Addr" y with
                  | Some [VPtr a], Some [VPtr b] => lift_k (ptr_diff a b) (fun d => VInt (d * esz cfg)) s k
                  | _, _ => stuck f s
                  end
      | _ => stuck f s
      end
    else if is "swap" then
      match args with
      | [p; q] => match val_eptr p, val_eptr q with
                  | Some a, Some b => lift_k (slot_swap cfg a b) vunit s k
                  | _, _ => stuck f s
                  end
      | _ => stuck f s
      end
    else if is "ptr:gt" || is "ptr:le" then
      match args with
      | [p; q] => match val_eptr p, val_eptr q with
                  | Some a, Some b => lift_k (ptr_lt b a) (fun r => VBool (if is "ptr:gt" then r else negb r)) s k
                  | _, _ => stuck f s
                  end
      | _ => stuck f s
      end
    (* ---- `for x in <iterable>` and `while let Some(x) = it.next()`: the hidden iterator of a `for` loop.
            A slice (`VCtor "Slice"`, the identities of its elements in order) is iterated by value --
            `for:next` is its head, `for:rest` its tail; a Drain / Splice object is iterated through
            Machine.drain_next_at and stays the same object ---- *)
    else if is "for:into_iter" then
      match args with [x] => k x s | _ => stuck f s end
    else if is "for:next" || is ".next" then
      match args with
      | [x] => match ctor_is "Script" x with
               | Some vs =>
                   (* the user's iterator: one answer of the script (Machine.iter_next) *)
                   lift_k (iter_next (ints_of vs)) (fun r => opt_elem_val (fst r)) s k
               | None =>
               match ctor_is "Slice" x, ctor_is "Iter" x with
               | Some (v :: _), _ => if is "for:next" then k (VCtor "Some" [v]) s else stuck f s
               | Some [], _ => if is "for:next" then k (VCtor "None" []) s else stuck f s
               | None, Some [VObj i] => lift_k (drain_next_at cfg i) opt_elem_val s k
               | _, _ => stuck f s
               end
               end
      | _ => stuck f s
      end
    else if is "for:rest" then
      match args with
      | [x] => match ctor_is "Script" x with
               | Some vs => k (VCtor "Script" (map VInt (snd (pop_script (ints_of vs) A_N)))) s
               | None =>
               match ctor_is "Slice" x with
               | Some (_ :: vs) => k (VCtor "Slice" vs) s
               | _ => k x s
               end
               end
      | _ => stuck f s
      end
    (* ---- the fields of a Drain object that its DropGuard reads ---- *)
    else if is "field:remaining_" || is "field:remaining_pos_" || is "field:vec_" then
      match args with
      | [it] => match ctor_is "Iter" it with
                | Some [VObj i] =>
                    lift_k (drain_of i) (fun d => if is "field:remaining_" then VInt (d_rem d)
                                                  else if is "field:remaining_pos_" then eptr_val (d_rpos d)
                                                  else VObj (d_vec d)) s k
                | _ => stuck f s
                end
      | _ => stuck f s
      end
    else if is "slice:empty" then
      match args with [] => k (VCtor "Slice" []) s | _ => stuck f s end
    else if is "from_raw_parts" then
      (* core::slice::from_raw_parts(data, len): the elements are exposed to safe code *)
      match args with
      | [p; VInt n] => match val_eptr p with
                       | Some q => lift_k (expose_slice cfg q n) (fun es => VCtor "Slice" (map VInt es)) s k
                       | None => stuck f s
                       end
      | _ => stuck f s
      end
    else if is "eq" then
      (* core::ptr::eq(self.buf.as_ptr(), DEFAULT_U8): is the handle the shared sentinel? *)
      match args with
      | [x; y] => match ctor_is "BufPtr" x, ctor_is "DEFAULT_U8" y with
                  | Some [VObj v], Some [] => lift_k (is_default v) VBool s k
                  | _, _ => stuck f s
                  end
      | _ => stuck f s
      end
    else if is ".as_mut" then
      (* NonNull<MiniVec<T>>::as_mut: the vector the Drain borrows *)
      match args with [VObj v] => k (VObj v) s | _ => stuck f s end
    (* core::mem::drop of an element handed out by an iterator; mem::forget of a guard *)
    else if is "drop" then
      match args with [VInt e] => lift_k (drop_elem cfg e) vunit s k | _ => stuck f s end
    else if is "forget" then
      match args with [_] => k VUnit s | _ => stuck f s end
    else stuck f s.
End Prims.
