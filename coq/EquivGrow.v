(* EquivGrow.v (see EquivCap.v) -- re-proved on every run against the ASTs regenerated from src/lib.rs: the bodies of
   len, capacity, alignment, reserve_exact, shrink_to_fit and shrink_to (and grow, in EquivGrow.v)
   evaluate -- in the machine world of Prims.v, for EVERY state, every vector, all arguments and BOTH
   build profiles -- to exactly the hand-written Machine functions that the theorems are about.
   Callee methods are interpreted by their Machine twins (each has its own lemma): the proof is modular. *)
From Coq Require Import ZArith List String Bool Lia.
From MV Require Import Ast Eval Scalar Machine EquivDefs Prims EquivTac.
From MV.Gen Require Import AstGen.
Import ListNotations.
Open Scope string_scope.
Open Scope Z_scope.

Section EquivGrow.
  Variable cfg : tcfg.
  Variable ncap : Z -> option Z.
  Local Notation runm := (runm cfg ncap).

  (* grow: the allocator calls, their arguments, the order of the null test, the header write and the
     handle update are those of the source, for every state (also ill-formed ones), every argument and
     both profiles *)
  Lemma grow_equiv v c a s :
    runm lib__MiniVec__grow_ast [VObj v; VInt c; VInt a] s = lift_m (grow cfg v c a) vunit s.
  Proof.
    unfold runm. evm.
    cbv [grow bind ret lift_m vunit ptr_val layout_val lift_opt panic ub fst snd HEADER_ALIGN].
    sym.
  Qed.

End EquivGrow.
