(* EquivRaw.v -- re-proved on every run against the ASTs regenerated from src/lib.rs: into_raw_parts,
   from_raw_part and from_raw_parts evaluate to the Machine functions of the same names -- in
   particular the distance from the data pointer back to the header is next_aligned(24, align_of::<T>())
   (NOT the alignment the block was obtained with: the known finding of C14 lives exactly here), and the
   two debug assertions of from_raw_parts read the header through the rebuilt handle. *)
From Coq Require Import ZArith List String Bool Lia.
From MV Require Import Ast Eval Scalar Machine EquivDefs Prims EquivTac.
From MV.Gen Require Import AstGen.
Import ListNotations.
Open Scope string_scope.
Open Scope Z_scope.

Section S.
  Variable cfg : tcfg.
  Variable ncap : Z -> option Z.
  Local Notation runm := (runm cfg ncap).

  Lemma into_raw_parts_equiv v s :
    runm lib__MiniVec__into_raw_parts_ast [VObj v] s = lift_m (into_raw_parts cfg v) raw_parts_val s.
  Proof.
    unfold runm. evm. cbv [into_raw_parts bind ret lift_m raw_parts_val fst snd]. sym.
  Qed.

  Lemma from_raw_part_equiv p s :
    runm lib__MiniVec__from_raw_part_ast [VPtr p] s = lift_m (from_raw_part cfg p) minivec_val s.
  Proof.
    unfold runm. evm. cbv [from_raw_part byte_of bind ret lift_m lift_opt panic ub minivec_val handle_val fst snd]. sym.
  Qed.

  Lemma from_raw_parts_equiv p l c s :
    runm lib__MiniVec__from_raw_parts_ast [VPtr p; VInt l; VInt c] s = lift_m (from_raw_parts cfg p l c) minivec_val s.
  Proof.
    unfold runm. evm. cbv [from_raw_parts byte_of bind ret lift_m lift_opt panic ub minivec_val handle_val fst snd]. sym.
  Qed.
End S.
