(* EquivDelegIter.v -- one-line bodies that are pure delegations: re-checked against the regenerated ASTs on
   every run (a body that stops being the delegation stops these lemmas; what the callee does is the
   subject of the callee's own tie).  The text of a closure literal is kept verbatim by the translator,
   so the comparison closure of `dedup` / `dedup_by_key` is pinned too. *)
From Coq Require Import ZArith List String.
From MV Require Import Ast.
From MV.Gen Require Import AstGen.
Import ListNotations.
Open Scope string_scope.

(* IntoIterator: by value = IntoIter::new(self); by reference = the slice's iterators through Deref *)
Lemma into_iter_is_into_iter_new :
  fn_body into_iterator__MiniVec__into_iter_ast = Blk [] (Some (ECall "IntoIter::new" [EVar "self"])) /\
  fn_body into_iterator__MiniVec__into_iter_2_ast = Blk [] (Some (ECall ".iter" [EVar "self"])) /\
  fn_body into_iterator__MiniVec__into_iter_3_ast = Blk [] (Some (ECall ".iter_mut" [EVar "self"])).
Proof. repeat split; reflexivity. Qed.

