(* EquivDelegSlice.v -- one-line bodies that are pure delegations: re-checked against the regenerated ASTs on
   every run (a body that stops being the delegation stops these lemmas; what the callee does is the
   subject of the callee's own tie).  The text of a closure literal is kept verbatim by the translator,
   so the comparison closure of `dedup` / `dedup_by_key` is pinned too. *)
From Coq Require Import ZArith List String.
From MV Require Import Ast.
From MV.Gen Require Import AstGen.
Import ListNotations.
Open Scope string_scope.

(* as_slice / as_mut_slice / AsRef / AsMut = `self` (Deref / DerefMut to the element slice) *)
Lemma slice_views_are_deref :
  fn_body lib__MiniVec__as_slice_ast = Blk [] (Some (EVar "self")) /\
  fn_body lib__MiniVec__as_mut_slice_ast = Blk [] (Some (EVar "self")) /\
  fn_body as_ref__MiniVec__as_ref_ast = Blk [] (Some (EVar "self")) /\
  fn_body as_mut__MiniVec__as_mut_ast = Blk [] (Some (EVar "self")).
Proof. repeat split; reflexivity. Qed.
