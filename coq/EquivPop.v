(* EquivPop.v -- see EquivElem.v: the body of `pop`, regenerated from src/lib.rs on every run, evaluates to
   Machine.pop (with the function-boundary semantics of EquivElem.v). *)
From Coq Require Import ZArith List String Bool Lia.
From MV Require Import Ast Eval Scalar Machine EquivDefs Prims EquivTac EquivElem.
From MV.Gen Require Import AstGen.
Import ListNotations.
Open Scope string_scope.
Open Scope Z_scope.

Section S.
  Variable cfg : tcfg.
  Variable ncap : Z -> option Z.
  Local Notation runm := (runm cfg ncap).

  Lemma pop_equiv v s :
    len_ok v s ->
    returning cfg (runm lib__MiniVec__pop_ast [VObj v]) s = lift_m (pop cfg v) opt_elem_val s.
  Proof.
    intros Hl. unfold returning, runm. evm.
    cbv [pop bind ret lift_m vunit opt_elem_val].
    sym; ranges Hl.
  Qed.
End S.
