(* Equiv.v -- re-proved on every run against the ASTs regenerated from /repo:
   every translated scalar function evaluates, for ALL inputs and in BOTH build
   profiles, to its hand-written twin in Scalar.v.  A source edit that changes
   what one of these functions computes breaks exactly one lemma here. *)
From Coq Require Import ZArith List String Bool Lia.
From MV Require Import Ast Eval Scalar EquivDefs.
From MV.Gen Require Import AstGen.
Import ListNotations.
Open Scope string_scope.
Open Scope Z_scope.

Section PureEquiv.
  Variable F W : Type.
  Variable cfg : tcfg.
  Variable prim : string -> list val -> W -> outcome F val * W.

  Definition run (fa : fn_ast) (args : list val) (w : W) :=
    eval_fn cfg gen_funs (direct prim) FUEL fa args w.

  Definition in_range (n : Z) := 0 <= n < W64.

  Ltac ev := cbv -[Z.add Z.sub Z.mul Z.div Z.modulo Z.eqb Z.ltb Z.leb Z.max Z.min
                   Z.land W64 ISIZE_MAX release esz ealign needs_drop is_pow2 layout_ok].
  Ltac brk :=
    repeat match goal with
           | |- context [if ?b then _ else _] => destruct b eqn:?
           end.

  Lemma next_aligned_equiv n a w :
    in_range n -> in_range a ->
    run helpers__next_aligned_ast [VInt n; VInt a] w = (lift (next_aligned n a), w).
  Proof.
    unfold in_range, run, next_aligned, add_u, lift. intros Hn Ha. ev.
    assert (W64 = 18446744073709551616) by reflexivity.
    brk; try reflexivity; try lia;
      try (exfalso; pose proof (Z.mod_pos_bound n a); lia).
  Qed.


  Definition lift_layout (o : option (Z * Z)) : outcome F val :=
    match o with
    | Some (s, a) => Norm (VCtor "Layout" [VInt s; VInt a])
    | None => Panic
    end.

  Lemma make_layout_equiv c a w :
    in_range c -> in_range a -> in_range (esz cfg) ->
    run helpers__make_layout_ast [VInt c; VInt a] w = (lift_layout (make_layout cfg c a), w).
  Proof.
    unfold in_range, run, make_layout, layout_size, next_aligned, add_u, mul_u, lift_layout, bindo.
    intros Hc Ha He. ev.
    assert (W64 = 18446744073709551616) by reflexivity.
    assert (HEADER_SIZE = 24) by reflexivity.
    pose proof (Z.mod_pos_bound 24 a).
    pose proof (Z.mod_pos_bound (c * esz cfg) a).
    pose proof (Z.mod_pos_bound ((c * esz cfg) mod W64) a).
    pose proof (Z.mod_pos_bound (c * esz cfg) W64).
    brk; try reflexivity; try lia.
  Qed.

  (* next_capacity is a policy: no twin, only the facts the properties need
     (C07: geometric growth, first allocation non-empty; C09: termination and
     overflow behaviour of the doubling). *)
End PureEquiv.
