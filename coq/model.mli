
type empty_set = |

val negb : bool -> bool

type nat =
| O
| S of nat

val fst : ('a1 * 'a2) -> 'a1

val snd : ('a1 * 'a2) -> 'a2

val length : 'a1 list -> nat

val app : 'a1 list -> 'a1 list -> 'a1 list

type comparison =
| Eq
| Lt
| Gt

val compOpp : comparison -> comparison

type uint =
| Nil
| D0 of uint
| D1 of uint
| D2 of uint
| D3 of uint
| D4 of uint
| D5 of uint
| D6 of uint
| D7 of uint
| D8 of uint
| D9 of uint

type signed_int =
| Pos of uint
| Neg of uint

val revapp : uint -> uint -> uint

val rev : uint -> uint

module Little :
 sig
  val double : uint -> uint

  val succ_double : uint -> uint
 end

val add : nat -> nat -> nat

val sub : nat -> nat -> nat

type positive =
| XI of positive
| XO of positive
| XH

type n =
| N0
| Npos of positive

type z =
| Z0
| Zpos of positive
| Zneg of positive

val bool_dec : bool -> bool -> bool

val eqb : bool -> bool -> bool

module Nat :
 sig
  val eqb : nat -> nat -> bool

  val leb : nat -> nat -> bool

  val min : nat -> nat -> nat
 end

module Pos :
 sig
  val succ : positive -> positive

  val add : positive -> positive -> positive

  val add_carry : positive -> positive -> positive

  val pred_double : positive -> positive

  val pred_N : positive -> n

  val mul : positive -> positive -> positive

  val compare_cont : comparison -> positive -> positive -> comparison

  val compare : positive -> positive -> comparison

  val eqb : positive -> positive -> bool

  val coq_Nsucc_double : n -> n

  val coq_Ndouble : n -> n

  val coq_lor : positive -> positive -> positive

  val coq_land : positive -> positive -> n

  val ldiff : positive -> positive -> n

  val iter_op : ('a1 -> 'a1 -> 'a1) -> positive -> 'a1 -> 'a1

  val to_nat : positive -> nat

  val of_succ_nat : nat -> positive

  val to_little_uint : positive -> uint

  val to_uint : positive -> uint
 end

module N :
 sig
  val succ_pos : n -> positive

  val add : n -> n -> n

  val mul : n -> n -> n

  val coq_lor : n -> n -> n

  val ldiff : n -> n -> n

  val to_nat : n -> nat
 end

module Z :
 sig
  val double : z -> z

  val succ_double : z -> z

  val pred_double : z -> z

  val pos_sub : positive -> positive -> z

  val add : z -> z -> z

  val opp : z -> z

  val sub : z -> z -> z

  val mul : z -> z -> z

  val compare : z -> z -> comparison

  val leb : z -> z -> bool

  val ltb : z -> z -> bool

  val eqb : z -> z -> bool

  val max : z -> z -> z

  val min : z -> z -> z

  val to_nat : z -> nat

  val of_nat : nat -> z

  val of_N : n -> z

  val to_int : z -> signed_int

  val pos_div_eucl : positive -> z -> z * z

  val div_eucl : z -> z -> z * z

  val div : z -> z -> z

  val modulo : z -> z -> z

  val coq_land : z -> z -> z
 end

val nth : nat -> 'a1 list -> 'a1 -> 'a1

val nth_error : 'a1 list -> nat -> 'a1 option

val rev0 : 'a1 list -> 'a1 list

val map : ('a1 -> 'a2) -> 'a1 list -> 'a2 list

val flat_map : ('a1 -> 'a2 list) -> 'a1 list -> 'a2 list

val existsb : ('a1 -> bool) -> 'a1 list -> bool

val filter : ('a1 -> bool) -> 'a1 list -> 'a1 list

val combine : 'a1 list -> 'a2 list -> ('a1 * 'a2) list

val firstn : nat -> 'a1 list -> 'a1 list

val skipn : nat -> 'a1 list -> 'a1 list

type ascii =
| Ascii of bool * bool * bool * bool * bool * bool * bool * bool

val ascii_dec : ascii -> ascii -> bool

val eqb0 : ascii -> ascii -> bool

val n_of_digits : bool list -> n

val n_of_ascii : ascii -> n

val nat_of_ascii : ascii -> nat

type string =
| EmptyString
| String of ascii * string

val eqb1 : string -> string -> bool

val append : string -> string -> string

val length0 : string -> nat

val substring : nat -> nat -> string -> string

val concat : string -> string list -> string

val prefix : string -> string -> bool

type binop =
| Add
| Sub
| Mul
| Div
| Rem
| Eq0
| Ne
| Lt0
| Le
| Gt0
| Ge
| And
| Or

type pat =
| PWild
| PLit of z
| PRange of z * z
| PBind of string
| PCtor of string * string list

type expr =
| ELit of z
| EBool of bool
| EUnit
| EVar of string
| EBin of binop * expr * expr
| ENot of expr
| EIf of expr * block * block option
| EMatch of expr * (pat * expr) list
| ECall of string * expr list
| EField of expr * string
| ETuple of expr list
| EStruct of string * (string * expr) list
| EBlock of block
| EForeign of string
and block =
| Blk of stmt list * expr option
and stmt =
| SLet of string list * expr
| SAssign of string * expr
| SOpAssign of binop * string * expr
| SExpr of expr
| SWhile of expr * block
| SReturn of expr option
| SPanic of string
| SDebugAssert of expr
| SForeign of string

type fn_ast = { fn_name : string; fn_params : string list; fn_body : block }

val w64 : z

val uSIZE_MAX : z

val iSIZE_MAX : z

val hEADER_SIZE : z

val hEADER_ALIGN : z

type eptr =
| PNull
| PDangling
| PWild0
| PElt of nat * z * z

type val0 =
| VPtr of eptr
| VInt of z
| VBool of bool
| VUnit
| VTuple of val0 list
| VCtor of string * val0 list
| VObj of nat
| VStruct of string * (string * val0) list

type tcfg = { esz : z; ealign : z; needs_drop : bool; release : bool }

type ('f, 'a) outcome =
| Norm of 'a
| Ret of val0
| Panic
| Fail of 'f
| Stuck of string
| NoFuel

val is_pow2 : z -> bool

val layout_ok : z -> z -> bool

type ('f, 'w) ans = ('f, val0) outcome * 'w

type ('f, 'w) kV = val0 -> 'w -> ('f, 'w) ans

type env = (string * val0) list

val lookup : string -> env -> val0 option

val update : string -> val0 -> env -> env option

val arith : tcfg -> binop -> z -> z -> ('a1, val0) outcome

val binop_val : tcfg -> binop -> val0 -> val0 -> ('a1, val0) outcome

val called_closure : string -> env -> val0 option

val is_addr : val0 -> bool

val both_ptr : val0 -> val0 -> bool

val ptr_cmp_name : binop -> string

val builtin : tcfg -> string -> val0 list -> ('a1, val0) outcome option

val match_pat : pat -> val0 -> env option

val bind_names : string list -> val0 -> env option

val restore : env -> env -> env

val kont : ('a1, val0) outcome -> 'a2 -> ('a1, 'a2) kV -> ('a1, 'a2) ans

val assigns : stmt list -> bool

val block_assigns : block -> bool

val exec_block :
  tcfg -> (string -> fn_ast option) -> (string -> val0 list -> 'a2 -> ('a1,
  'a2) kV -> ('a1, 'a2) ans) -> nat -> block -> env -> 'a2 -> ('a1, 'a2) kV
  -> (val0 -> env -> 'a2 -> ('a1, 'a2) ans) -> ('a1, 'a2) ans

val eval_fn :
  tcfg -> (string -> fn_ast option) -> (string -> val0 list -> 'a2 -> ('a1,
  'a2) kV -> ('a1, 'a2) ans) -> nat -> fn_ast -> val0 list -> 'a2 -> ('a1,
  'a2) ans

val direct :
  (string -> val0 list -> 'a2 -> ('a1, val0) outcome * 'a2) -> string -> val0
  list -> 'a2 -> (val0 -> 'a2 -> ('a1, val0) outcome * 'a2) -> ('a1, val0)
  outcome * 'a2

val bindo : 'a1 option -> ('a1 -> 'a2 option) -> 'a2 option

val add_u : z -> z -> z option

val mul_u : z -> z -> z option

val next_aligned : z -> z -> z option

val max_align : tcfg -> z

val layout_size : tcfg -> z -> z -> z option

val make_layout : tcfg -> z -> z -> (z * z) option

val data_offset : z -> z option

type elem = z

type slot =
| Uninit
| Init of elem

type block0 = { b_size : z; b_align : z; h_len : z; h_cap : z; h_align : 
                z; slots : (z -> slot); b_live : bool }

type handle =
| Sentinel
| At of nat * z

type status =
| Fresh
| Live
| Out
| Dropped

type ubkind =
| DoubleDrop
| DeadExposed
| UninitExposed
| DupExposed
| HeaderAccess
| MisplacedHeader
| OutOfBlock
| MisplacedData
| AllocContract
| NullSlice
| WildCursor
| UseAfterFree
| NullDeref
| BadObject

type 'a res =
| Val of 'a
| Panicking
| UB of ubkind
| AllocAbort of z * z
| Abort
| OutOfFuel

type event =
| EvAlloc of z * z
| EvRealloc of z * z * z
| EvDealloc of z * z
| EvAllocFail of z * z * ((z * z) * z) option
| EvClone of elem * elem
| EvDrop of elem
| EvCall of string * elem list

type drain_it = { d_vec : nat; d_pos : eptr; d_end : eptr; d_rpos : eptr;
                  d_rem : z; d_fill : z list option }

type dfilter_it = { f_vec : nat; f_old : z; f_new : z; f_pos : z;
                    f_panicked : bool; f_pred : z list }

type into_it = { i_vec : nat; i_pos : eptr }

type iter =
| IDrain of drain_it
| IFilter of dfilter_it
| IInto of into_it

type state = { heap : block0 list; vecs : handle option list;
               iters : iter option list; ledger : (elem -> status);
               payload : (elem -> z); next_elem : elem;
               drop_panics : elem list; clone_panics : elem list;
               alloc_fail : z option; alloc_limit : z; events : event list }

type 'a m = state -> 'a res * state

val ret : 'a1 -> 'a1 m

val bind : 'a1 m -> ('a1 -> 'a2 m) -> 'a2 m

val ub : ubkind -> 'a1 m

val panic : 'a1 m

val get : state m

val emit : event -> unit m

val try_finally : 'a1 m -> unit m -> 'a1 m

val on_unwind : 'a1 m -> unit m -> 'a1 m

val catch : 'a1 m -> 'a1 option m

val list_set : 'a1 list -> nat -> 'a1 -> 'a1 list

val list_put : 'a1 -> 'a1 list -> nat -> 'a1 -> 'a1 list

val set_heap : block0 list -> unit m

val set_vecs : handle option list -> unit m

val set_iters : iter option list -> unit m

val set_ledger : (elem -> status) -> unit m

val set_alloc_fail : z option -> unit m

val upd : (z -> 'a1) -> z -> 'a1 -> z -> 'a1

val mem : elem -> elem list -> bool

val tracked : tcfg -> bool

val fresh_elem : z -> elem m

val status_of : elem -> status m

val payload_of : elem -> z m

val expose : tcfg -> elem -> unit m

val hand_out : tcfg -> elem -> unit m

val drop_elem : tcfg -> elem -> unit m

val clone_elem : tcfg -> elem -> elem m

val drop_list : tcfg -> elem list -> unit m

val get_block : nat -> block0 m

val put_block : nat -> block0 -> unit m

val with_hdr : block0 -> z -> z -> z -> block0

val with_slots : block0 -> (z -> slot) -> block0

val canon_off : block0 -> z option

val hdr_block : handle -> (nat * block0) m

val elt_block : tcfg -> eptr -> ((nat * block0) * z) m

val slot_read : tcfg -> eptr -> elem m

val slot_write : tcfg -> eptr -> elem -> unit m

val padd : tcfg -> eptr -> z -> eptr

val slot_copy : tcfg -> eptr -> eptr -> z -> unit m

val slot_copy_across : tcfg -> eptr -> eptr -> z -> unit m

val count_request : z -> bool m

val do_alloc : z -> z -> nat option m

val do_realloc : handle -> z -> z -> z -> nat option m

val do_dealloc : handle -> z -> z -> unit m

val vec_handle : nat -> handle m

val set_handle : nat -> handle option -> unit m

val lift_opt : 'a1 option -> 'a1 m

val is_default : nat -> bool m

val len : nat -> z m

val capacity : nat -> z m

val alignment : tcfg -> nat -> z m

val set_len : nat -> z -> unit m

val add_len : nat -> z -> unit m

val data : tcfg -> nat -> eptr m

val as_ptr : tcfg -> nat -> eptr m

val grow : tcfg -> nat -> z -> z -> unit m

val reserve_loop : (z -> z option) -> nat -> z -> z -> z m

val add_m : z -> z -> z m

val reserve : tcfg -> (z -> z option) -> nat -> z -> unit m

val reserve_exact : tcfg -> nat -> z -> unit m

val shrink_to_fit : tcfg -> nat -> unit m

val shrink_to : tcfg -> nat -> z -> unit m

val new_vec : tcfg -> nat -> unit m

val with_capacity : tcfg -> nat -> z -> unit m

val with_alignment : tcfg -> nat -> z -> z -> z m

val read_from : tcfg -> eptr -> nat -> elem list m

val read_list : tcfg -> eptr -> z -> elem list m

val expose_list : tcfg -> elem list -> unit m

val has_dup : elem list -> bool

val expose_slice : tcfg -> eptr -> z -> elem list m

val deref : tcfg -> nat -> elem list m

val push : tcfg -> (z -> z option) -> nat -> elem -> unit m

val pop : tcfg -> nat -> elem option m

val insert : tcfg -> (z -> z option) -> nat -> z -> elem -> unit m

val remove : tcfg -> nat -> z -> elem m

val swap_remove : tcfg -> nat -> z -> elem m

val truncate : tcfg -> nat -> z -> unit m

val clear : tcfg -> nat -> unit m

val drop_body : tcfg -> nat -> unit m

val drop_vec : tcfg -> nat -> unit m

val is_empty : nat -> bool m

val append0 : tcfg -> (z -> z option) -> nat -> nat -> unit m

val slot_swap : tcfg -> eptr -> eptr -> unit m

type answer = z

val a_T : answer

val a_F : answer

val a_P : answer

val a_S : answer

val a_N : answer

val pop_script : answer list -> answer -> answer * answer list

type same_kind =
| SameEq
| SameKey
| SameScript

val nAN_PAYLOAD : z

val elem_eq : tcfg -> elem -> elem -> bool m

val same_call :
  tcfg -> same_kind -> elem -> elem -> answer list -> (bool * answer list) m

val dedup_loop :
  tcfg -> nat -> same_kind -> eptr -> z -> z -> z -> answer list -> z m

val dedup_by : tcfg -> nat -> same_kind -> answer list -> unit m

val retain_loop : tcfg -> nat -> eptr -> z -> z -> z -> answer list -> z m

val retain : tcfg -> nat -> answer list -> unit m

val remove_item_loop : tcfg -> nat -> nat -> z -> z -> elem -> elem option m

val remove_item : tcfg -> nat -> elem -> elem option m

val small : z -> nat

val uadd : tcfg -> z -> z -> z m

val resize_loop :
  tcfg -> (z -> z option) -> nat -> nat -> elem -> z -> z -> unit m

val resize_body : tcfg -> (z -> z option) -> nat -> z -> elem -> unit m

val resize : tcfg -> (z -> z option) -> nat -> z -> elem -> unit m

val gen_elem : answer list -> (elem * answer list) m

val resize_with_loop :
  tcfg -> (z -> z option) -> nat -> nat -> z -> z -> answer list -> unit m

val resize_with : tcfg -> (z -> z option) -> nat -> z -> answer list -> unit m

val push_clones : tcfg -> (z -> z option) -> nat -> elem list -> unit m

val extend_from_slice : tcfg -> (z -> z option) -> nat -> elem list -> unit m

val iter_next : answer list -> (elem option * answer list) m

val extend_loop :
  tcfg -> (z -> z option) -> nat -> nat -> answer list -> answer list m

val extend : tcfg -> (z -> z option) -> nat -> answer list -> answer list m

val building : tcfg -> nat -> unit m -> unit m

val from_iter : tcfg -> (z -> z option) -> nat -> answer list -> answer list m

val from_slice : tcfg -> (z -> z option) -> nat -> elem list -> unit m

val clone_go :
  tcfg -> (z -> z option) -> nat -> nat -> nat -> z -> z -> unit m

val clone_fill : tcfg -> (z -> z option) -> nat -> nat -> unit m

val clone_vec : tcfg -> (z -> z option) -> nat -> nat -> unit m

type bound =
| BIncl of z
| BExcl of z
| BUnb

val resolve : bound -> bound -> z -> (z * z) m

val efw_loop : tcfg -> nat -> nat -> eptr -> z -> z -> z -> z m

val extend_from_within :
  tcfg -> (z -> z option) -> nat -> bound -> bound -> unit m

val split_off : tcfg -> nat -> nat -> z -> unit m

val drain_vec : nat -> nat -> unit m

val spare_capacity : tcfg -> nat -> z m

val split_at_spare : tcfg -> nat -> (z * z) m

val index : tcfg -> nat -> z -> elem m

val slice_range : tcfg -> nat -> bound -> bound -> elem list m

val leak : tcfg -> nat -> elem list m

val byte_of : tcfg -> eptr -> (nat * z) m

val into_raw_parts : tcfg -> nat -> ((eptr * z) * z) m

val from_raw_part : tcfg -> eptr -> handle m

val from_raw_parts : tcfg -> eptr -> z -> z -> handle m

val raw_roundtrip : tcfg -> nat -> bool -> (z * z) m

val macro_repeat : tcfg -> nat -> z -> unit m

val push_fresh : tcfg -> (z -> z option) -> nat -> nat -> unit m

val from_str : tcfg -> nat -> elem list -> unit m

val iter_get : nat -> iter m

val iter_set : nat -> iter option -> unit m

val ptr_lt : eptr -> eptr -> bool m

val ptr_diff : eptr -> eptr -> z m

val make_drain :
  tcfg -> nat -> bound -> bound -> answer list option -> drain_it m

val with_pos : drain_it -> eptr -> drain_it

val with_end : drain_it -> eptr -> drain_it

val drain_next : tcfg -> drain_it -> (elem option * drain_it) m

val drain_rest : tcfg -> nat -> drain_it -> drain_it m

val window_fuel : drain_it -> nat

val drain_guard : tcfg -> drain_it -> unit m

val fill_loop :
  tcfg -> nat -> nat -> eptr -> z -> answer list -> (bool * answer list) m

val splice_guard : tcfg -> (z -> z option) -> nat -> drain_it -> unit m

val drain_drop_loop :
  tcfg -> nat -> (drain_it -> unit m) -> drain_it -> drain_it m

val drain_drop : tcfg -> (z -> z option) -> nat -> drain_it -> unit m

val make_filter : nat -> answer list -> dfilter_it m

val with_f : dfilter_it -> z -> z -> bool -> answer list -> dfilter_it

type fstep =
| FYield of elem
| FDone
| FPanic

val filter_next : tcfg -> nat -> dfilter_it -> (fstep * dfilter_it) m

val filter_fuel : dfilter_it -> nat

val filter_of : nat -> dfilter_it m

val set_filter_panicked : nat -> bool -> unit m

val set_filter_pos : nat -> z -> unit m

val set_filter_new : nat -> z -> unit m

val filter_pred_at : tcfg -> nat -> eptr -> bool m

val filter_next_at : tcfg -> nat -> nat -> elem option m

val filter_guard : tcfg -> dfilter_it -> unit m

val filter_drop_loop : tcfg -> nat -> dfilter_it -> unit m

val filter_drop : tcfg -> dfilter_it -> unit m

val make_into : tcfg -> nat -> into_it m

val drain_of : nat -> drain_it m

val into_of : nat -> into_it m

val set_drain_pos : nat -> eptr -> unit m

val set_drain_end : nat -> eptr -> unit m

val set_into_pos : nat -> eptr -> unit m

val drain_next_at : tcfg -> nat -> elem option m

val drain_next_back_at : tcfg -> nat -> elem option m

val drain_hint_at : nat -> z m

val into_next_at : tcfg -> nat -> elem option m

val into_next_back_at : tcfg -> nat -> elem option m

val into_len_at : nat -> z m

val into_as_slice : tcfg -> into_it -> elem list m

val into_clone : tcfg -> (z -> z option) -> into_it -> nat -> into_it m

val into_drop_body : tcfg -> into_it -> unit m

val into_drop : tcfg -> into_it -> unit m

type script = z list

type op =
| ONew of nat
| ODefault of nat
| OMac0 of nat
| OWithCapacity of nat * z
| OWithAlignment of nat * z * z
| OFromSlice of nat * z
| OFromMutSlice of nat * z
| OFromStr of nat * z
| OFromIter of nat * script
| OMacroRepeat of nat * z
| OMacroList of nat
| OClone of nat * nat
| ODrainVec of nat * nat
| OSplitOff of nat * nat * z
| ORawRoundTrip of nat * bool
| OLeak of nat
| ODropVec of nat
| OPush of nat * z option
| OPop of nat
| OInsert of nat * z
| ORemove of nat * z
| OSwapRemove of nat * z
| OTruncate of nat * z
| OClear of nat
| OResize of nat * z
| OResizeWith of nat * z * script
| OExtendFromSlice of nat * z
| OExtend of nat * script
| OExtendFromWithin of nat * bound * bound
| OAppend of nat * nat
| ODedup of nat
| ODedupBy of nat * script
| ODedupByKey of nat
| ORetain of nat * script
| ORemoveItem of nat * z
| OReserve of nat * z
| OReserveExact of nat * z
| OShrinkToFit of nat
| OShrinkTo of nat * z
| OSpare of nat
| OSplitSpare of nat
| OIndex of nat * z
| OSlice of nat * bound * bound
| OCmp of nat * nat
| ODrain of nat * nat * bound * bound
| OSplice of nat * nat * bound * bound * script
| ODrainFilter of nat * nat * script
| OIntoIter of nat * nat
| ONext of nat
| ONextBack of nat
| ONth of nat * z
| ONthBack of nat * z
| OCount of nat
| OLast of nat
| OHint of nat
| OAsSlice of nat
| OCloneIter of nat * nat
| ODropIter of nat
| OForgetIter of nat
| OUnknown

type retv =
| RNone
| ROpt of elem option
| RElem of elem
| RList of elem list
| RCode of z
| RNum of z
| RPair of z * z
| RHint of z * z option
| RCmp of bool * z
| REnd of status list * (z * z) list

type outtag =
| TOk
| TPanic
| TSkip
| TUnknown
| TUB of ubkind
| TAbort
| TAllocAbort of z * z
| TNoFuel

type place =
| PlNull
| PlAt of z * z * z

type vobs = { vo_id : nat; vo_len : z; vo_cap : z; vo_place : place;
              vo_ids : elem list }

type obs = { o_out : outtag; o_ret : retv; o_vecs : vobs list;
             o_events : event list }

val hIDDEN : nat

val into_slot : nat -> nat

val tMP_SLOT : nat

val vec_exists : state -> nat -> bool

val iter_exists : state -> nat -> bool

val borrows : nat -> iter option -> bool

val borrowed : state -> nat -> bool

val has : state -> nat -> bool

val free_vec : state -> nat -> bool

val fresh_n : nat -> elem list m

val hand_out_all : tcfg -> elem list -> unit m

val payloads : elem list -> z list m

val slice_eq : z list -> z list -> bool

val slice_pcmp : z list -> z list -> z

val sKIP : (outtag * retv) m

val done0 : unit m -> (outtag * retv) m

val with_ret : retv m -> (outtag * retv) m

val yield : tcfg -> elem option -> retv m

val iter_front : tcfg -> nat -> elem option m

val iter_nth : tcfg -> nat -> nat -> elem option m

val iter_back : tcfg -> nat -> elem option m

val iter_nth_back : tcfg -> nat -> nat -> elem option m

val iter_count : tcfg -> nat -> nat -> z -> z m

val iter_last : tcfg -> nat -> nat -> elem option -> elem option m

val step : tcfg -> (z -> z option) -> op -> (outtag * retv) m

val observe_vec : tcfg -> nat -> vobs m

val observe_vecs : tcfg -> nat -> nat -> vobs list m

val take_events : event list m

val tag_of : 'a1 res -> outtag

val visible : state -> nat

val after_op : tcfg -> outtag -> retv -> state -> (obs * state) * bool

val run_op : tcfg -> (z -> z option) -> op -> state -> (obs * state) * bool

val finish_iters : tcfg -> (z -> z option) -> nat -> nat -> unit m

val finish_vecs : tcfg -> nat -> nat -> unit m

val ledger_list : nat -> (elem -> status) -> z -> status list

val live_blocks : block0 list -> (z * z) list

val finish : tcfg -> (z -> z option) -> state -> obs * state

val init_state : elem list -> elem list -> z option -> z -> state

module NilEmpty :
 sig
  val string_of_uint : uint -> string
 end

module NilZero :
 sig
  val string_of_uint : uint -> string

  val string_of_int : signed_int -> string
 end

val split_aux : ascii -> string -> string -> string list

val split : ascii -> string -> string list

val nonempty : string -> bool

val words : string -> string list

val join : string -> string list -> string

val is_digit : ascii -> bool

val digit_val : ascii -> z

val take_num : string -> z -> z * string

val num : string -> z

val natnum : string -> nat

val zstr : z -> string

val strip_prefix : string -> string -> string option

val codes : string -> z list

val script_of : string -> script

val wrap : z -> z

val arg_ops : nat -> string -> z -> z

val arg_of : z -> z -> string -> z

val bound_of : z -> z -> string -> bound

val nth_tok : string list -> nat -> string

val lc : state -> nat -> z * z

val parse_op : state -> string list -> op

val ids : elem list -> string

val ubname : ubkind -> string

val outstr : outtag -> string

val stchar : status -> string

val retstr : retv -> string

val placestr : place -> string

val natstr : nat -> string

val vobsstr : vobs -> string

val alloc_ev : event -> string list

val elem_ev : event -> string list

val render : nat -> string -> obs -> string

val class_cfg : string -> bool -> tcfg

val find_kv : string -> string list -> string option

val numlist : string -> z list

val run_ops :
  (tcfg -> z -> z option) -> tcfg -> nat -> string list list -> state ->
  string list -> string list

val run_line : (tcfg -> z -> z option) -> string -> string list

val helpers__next_aligned_ast : fn_ast

val helpers__next_capacity_ast : fn_ast

val helpers__max_align_ast : fn_ast

val helpers__make_layout_ast : fn_ast

val serde__map_size_hint_ast : fn_ast

val fUEL : nat

val gen_funs : string -> fn_ast option

val no_prim : string -> val0 list -> unit -> (empty_set, val0) outcome * unit

val ncap_of : tcfg -> z -> z option

val run_history : string -> string list
