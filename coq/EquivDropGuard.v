(* EquivDropGuard.v -- the Drop code of `Drain` (src/impl/drain.rs), regenerated:
     impl Drop for DropGuard:  for x in &mut self.drain { drop(x) }
                               if self.drain.remaining_ > 0 { ..copy the tail back..; v.set_len(v_len + remaining_) }
     impl Drop for Drain:      while let Some(item) = self.next() { let guard = DropGuard { drain: self };
                                                                   drop(item); mem::forget(guard) }
                               DropGuard { drain: self };
   evaluated by the IR semantics on a Drain OBJECT of the world, equal DrainAt.drain_guard_at and
   DrainAt.drain_rest_at -- every state, every window, destructors that panic anywhere, both profiles --
   whenever the machine's loop does not run out of its fuel (induction over that fuel).  What the bodies
   leave out is Rust's drop glue: the guard built inside the loop runs DropGuard::drop when `drop(item)`
   unwinds, and the temporary guard of the last statement runs it at once (Machine.drain_drop). *)
From Coq Require Import ZArith List String Bool Lia.
From MV Require Import Ast Eval Scalar Machine DrainAt EquivDefs Prims EquivTac.
From MV.Gen Require Import AstGen.
Import ListNotations.
Open Scope string_scope.
Open Scope Z_scope.

Section EquivDropGuard.
  Variable cfg : tcfg.
  Variable ncap : Z -> option Z.

  Local Notation P := (prim cfg ncap).
  Local Notation NOF := (fun _ : string => @None fn_ast).
  Local Notation AnsM := (outcome mfail val * state)%type.
  Local Notation xstmts := (@exec_stmts mfail state cfg NOF P).
  Local Notation xstmt := (@exec_stmt mfail state cfg NOF P).
  Local Notation xblock := (@exec_block mfail state cfg NOF P).
  Local Notation xexpr := (@eval_expr mfail state cfg NOF P).

  Lemma exec_stmts_cons F s ss en w kr k :
    xstmts (S F) (s :: ss) en w kr k = xstmt F s en w kr (fun en w => xstmts F ss en w kr k).
  Proof. reflexivity. Qed.
  Lemma exec_block_S F ss tail en w kr k :
    xblock (S F) (Blk ss tail) en w kr k =
    xstmts F ss en w kr (fun en' w =>
      match tail with
      | Some e => xexpr F e en' w kr (fun v w => k v (restore en en') w)
      | None => k VUnit (restore en en') w
      end).
  Proof. reflexivity. Qed.
  Lemma exec_sexpr_block F b en w kr k :
    xstmt (S F) (SExpr (EBlock b)) en w kr k = xblock F b en w kr (fun _ en w => k en w).
  Proof. reflexivity. Qed.
  Lemma exec_while F c b en w kr k :
    xstmt (S F) (SWhile c b) en w kr k =
    xexpr F c en w kr (fun vc w =>
      match vc with
      | VBool true => xblock F b en w kr (fun _ en w => xstmt F (SWhile c b) en w kr k)
      | VBool false => k en w
      | _ => (Stuck "while on non-boolean", w)
      end).
  Proof. reflexivity. Qed.


  Definition iter_val (i : nat) : val := VCtor "Iter" [VObj i].
  Definition guard_val (i : nat) : val := VStruct "DropGuard" [("drain", iter_val i)].

  Definition guarded {A} (r : res A * state) (x : AnsM) : AnsM :=
    match fst r with OutOfFuel => (NoFuel, snd r) | _ => x end.
  Lemma guarded_elim {A} (r : res A * state) (x y : AnsM) :
    fst r <> OutOfFuel -> guarded r x = guarded r y -> x = y.
  Proof. unfold guarded. destruct (fst r); congruence. Qed.

  Ltac evg := cbv -[Z.add Z.sub Z.mul Z.div Z.modulo Z.eqb Z.ltb Z.leb Z.max Z.min Z.land Z.to_nat Z.of_nat W64 ISIZE_MAX
                  release esz ealign needs_drop is_pow2 layout_ok
                  is_default len capacity alignment vec_handle hdr_block
                  drain_next_at drain_of drop_elem drain_rest_at as_ptr slot_copy set_len padd
                  get_block put_block set_handle
                  nth_error heap vecs guarded].

  Ltac known :=
    repeat match goal with
           | H : ?x = (_, _) |- context [?x] => rewrite H; red1
           end.

  (* ================= DropGuard::drop ================= *)
  Definition WHG : stmt :=
    match fn_body drain__DropGuard__drop_ast with
    | Blk [SExpr (EBlock (Blk [_; _; w] _))] _ => w
    | _ => SForeign "no loop"
    end.
  Definition ENVG (i : nat) (go : bool) : env :=
    [("__go", VBool go); ("__it", iter_val i); ("self", guard_val i)].

  Definition after_loopG (K : env -> state -> AnsM) (i : nat) (r : res unit * state) : AnsM :=
    match r with
    | (Val _, s') => K (ENVG i false) s'
    | (Panicking, s') => (Panic, s')
    | (UB u, s') => (Fail (FUB u), s')
    | (AllocAbort x y, s') => (Fail (FAllocAbort x y), s')
    | (Abort, s') => (Fail FAbort, s')
    | (OutOfFuel, s') => (Fail FNoFuel, s')
    end.

  Lemma loop_equivG i kr K : forall k F s,
    (k <= F)%nat ->
    guarded (drain_rest_at cfg k i s) (xstmt (S (40 + F)) WHG (ENVG i true) s kr K) =
    guarded (drain_rest_at cfg k i s) (after_loopG K i (drain_rest_at cfg k i s)).
  Proof.
    induction k as [|k IH]; intros F s HF.
    - cbn [drain_rest_at]. cbv [guarded fst snd]. reflexivity.
    - destruct F as [|F]; [lia|].
      cbv [WHG drain__DropGuard__drop_ast fn_body]. rewrite exec_while.
      match goal with |- context [xstmt (40 + S F) ?w] => change w with WHG end.
      remember (xstmt (40 + S F) WHG) as REC eqn:EREC.
      cbn [drain_rest_at]. cbv [ENVG after_loopG bind ret iter_val guard_val] in *.
      evg. red1.
      destruct (drain_next_at cfg i s) as [[o| | | | |] s1] eqn:En; red1; try reflexivity.
      destruct o as [e|]; red1.
      + destruct (drop_elem cfg e s1) as [[u| | | | |] s2] eqn:Ed; red1; try reflexivity.
        subst REC. change (40 + S F)%nat with (S (40 + F)). apply (IH F s2). lia.
      + cbv [guarded fst snd].
        subst REC. change (40 + S F)%nat with (S (40 + F)).
        cbv [WHG drain__DropGuard__drop_ast fn_body]. rewrite exec_while.
        remember (xstmt (40 + F)) as REC eqn:EREC.
        evg. reflexivity.
  Qed.

  Definition run_guard_drop (fuel : nat) (i : nat) (s : state) : AnsM :=
    @eval_fn mfail state cfg NOF P fuel drain__DropGuard__drop_ast [guard_val i] s.

  Ltac next_stmt K EK :=
    rewrite exec_stmts_cons;
    match goal with |- context [@exec_stmt _ _ _ _ _ _ _ _ _ _ ?k] => remember k as K eqn:EK end.

  Theorem dropguard_drop_equiv i s k F :
    (k <= F)%nat ->
    fst (drain_guard_at cfg k i s) <> OutOfFuel ->
    run_guard_drop (FUEL + F) i s = lift_m (drain_guard_at cfg k i) vunit s.
  Proof.
    intros HF Hfuel.
    unfold run_guard_drop, eval_fn.
    cbv [drain__DropGuard__drop_ast fn_body fn_params FUEL combine rev app].
    change (120 + F)%nat with (S (119 + F)). rewrite exec_block_S.
    unfold lift_m. cbv [drain_guard_at bind ret] in Hfuel |- *.
    change (119 + F)%nat with (S (118 + F)).
    rewrite exec_stmts_cons. change (118 + F)%nat with (S (117 + F)). rewrite exec_sexpr_block.
    change (117 + F)%nat with (S (116 + F)). rewrite exec_block_S.
    change (116 + F)%nat with (S (115 + F)).
    next_stmt K2 EK2. evg. subst K2. change (115 + F)%nat with (S (114 + F)).
    next_stmt K3 EK3. evg. subst K3. change (114 + F)%nat with (S (113 + F)).
    rewrite exec_stmts_cons.
    match goal with |- context [xstmt (113 + F) ?w] => change w with WHG end.
    change [("__go", VBool true); ("__it", VCtor "Iter" [VObj i]); ("self", VStruct "DropGuard" [("drain", VCtor "Iter" [VObj i])])]
      with (ENVG i true).
    change (113 + F)%nat with (S (40 + (72 + F))).
    assert (Hgo : fst (drain_rest_at cfg k i s) <> OutOfFuel).
    { intros E. apply Hfuel. destruct (drain_rest_at cfg k i s) as [[u'| | | | |] s6]; simpl in E; try discriminate. reflexivity. }
    apply (guarded_elim (drain_rest_at cfg k i s) _ _ Hgo).
    rewrite (loop_equivG i _ _ k (72 + F)%nat s) by lia.
    f_equal.
    destruct (drain_rest_at cfg k i s) as [[u'| | | | |] s1]; cbv [after_loopG]; try reflexivity.
    (* the tail of the body: straight-line code *)
    cbv [ENVG iter_val guard_val uadd].
    evg. red1.
    repeat first [ reflexivity | step; known ].
  Qed.

  (* ================= Drain::drop (the body; the guards' own Drop is glue) ================= *)
  Definition WHD : stmt :=
    match fn_body drain__Drain__drop_ast with
    | Blk [SExpr (EBlock (Blk [_; w] _)); _] _ => w
    | _ => SForeign "no loop"
    end.
  Definition ENVD (i : nat) (go : bool) : env := [("__go", VBool go); ("self", iter_val i)].

  Definition after_loopD (K : env -> state -> AnsM) (i : nat) (r : res unit * state) : AnsM :=
    match r with
    | (Val _, s') => K (ENVD i false) s'
    | (Panicking, s') => (Panic, s')
    | (UB u, s') => (Fail (FUB u), s')
    | (AllocAbort x y, s') => (Fail (FAllocAbort x y), s')
    | (Abort, s') => (Fail FAbort, s')
    | (OutOfFuel, s') => (Fail FNoFuel, s')
    end.

  Lemma loop_equivDD i kr K : forall k F s,
    (k <= F)%nat ->
    guarded (drain_rest_at cfg k i s) (xstmt (S (40 + F)) WHD (ENVD i true) s kr K) =
    guarded (drain_rest_at cfg k i s) (after_loopD K i (drain_rest_at cfg k i s)).
  Proof.
    induction k as [|k IH]; intros F s HF.
    - cbn [drain_rest_at]. cbv [guarded fst snd]. reflexivity.
    - destruct F as [|F]; [lia|].
      cbv [WHD drain__Drain__drop_ast fn_body]. rewrite exec_while.
      match goal with |- context [xstmt (40 + S F) ?w] => change w with WHD end.
      remember (xstmt (40 + S F) WHD) as REC eqn:EREC.
      cbn [drain_rest_at]. cbv [ENVD after_loopD bind ret iter_val] in *.
      evg. red1.
      destruct (drain_next_at cfg i s) as [[o| | | | |] s1] eqn:En; red1; try reflexivity.
      destruct o as [e|]; red1.
      + destruct (drop_elem cfg e s1) as [[u| | | | |] s2] eqn:Ed; red1; try reflexivity.
        subst REC. change (40 + S F)%nat with (S (40 + F)). apply (IH F s2). lia.
      + cbv [guarded fst snd].
        subst REC. change (40 + S F)%nat with (S (40 + F)).
        cbv [WHD drain__Drain__drop_ast fn_body]. rewrite exec_while.
        remember (xstmt (40 + F)) as REC eqn:EREC.
        evg. reflexivity.
  Qed.

  Definition run_drain_drop (fuel : nat) (i : nat) (s : state) : AnsM :=
    @eval_fn mfail state cfg NOF P fuel drain__Drain__drop_ast [iter_val i] s.

  Theorem drain_drop_body_equiv i s k F :
    (k <= F)%nat ->
    fst (drain_rest_at cfg k i s) <> OutOfFuel ->
    run_drain_drop (FUEL + F) i s = lift_m (drain_rest_at cfg k i) vunit s.
  Proof.
    intros HF Hgo.
    unfold run_drain_drop, eval_fn.
    cbv [drain__Drain__drop_ast fn_body fn_params FUEL combine rev app].
    change (120 + F)%nat with (S (119 + F)). rewrite exec_block_S.
    unfold lift_m.
    change (119 + F)%nat with (S (118 + F)).
    rewrite exec_stmts_cons. change (118 + F)%nat with (S (117 + F)). rewrite exec_sexpr_block.
    change (117 + F)%nat with (S (116 + F)). rewrite exec_block_S.
    change (116 + F)%nat with (S (115 + F)).
    next_stmt K2 EK2. evg. subst K2. change (115 + F)%nat with (S (114 + F)).
    rewrite exec_stmts_cons.
    match goal with |- context [xstmt (114 + F) ?w] => change w with WHD end.
    change [("__go", VBool true); ("self", VCtor "Iter" [VObj i])] with (ENVD i true).
    change (114 + F)%nat with (S (40 + (73 + F))).
    apply (guarded_elim (drain_rest_at cfg k i s) _ _ Hgo).
    rewrite (loop_equivDD i _ _ k (73 + F)%nat s) by lia.
    f_equal.
  Qed.
  (* ================= Splice::drop (the body: the same loop over `self.next()`; Splice's guard, which
     refills the hole from the replacement iterator, is glue here and modelled by hand: Machine.splice_guard) ================= *)
  Definition WHSP : stmt :=
    match fn_body splice__Splice__drop_ast with
    | Blk [SExpr (EBlock (Blk [_; w] _)); _] _ => w
    | _ => SForeign "no loop"
    end.
  Definition ENVSP (i : nat) (go : bool) : env := [("__go", VBool go); ("self", iter_val i)].

  Definition after_loopSP (K : env -> state -> AnsM) (i : nat) (r : res unit * state) : AnsM :=
    match r with
    | (Val _, s') => K (ENVSP i false) s'
    | (Panicking, s') => (Panic, s')
    | (UB u, s') => (Fail (FUB u), s')
    | (AllocAbort x y, s') => (Fail (FAllocAbort x y), s')
    | (Abort, s') => (Fail FAbort, s')
    | (OutOfFuel, s') => (Fail FNoFuel, s')
    end.

  Lemma loop_equivSP i kr K : forall k F s,
    (k <= F)%nat ->
    guarded (drain_rest_at cfg k i s) (xstmt (S (40 + F)) WHSP (ENVSP i true) s kr K) =
    guarded (drain_rest_at cfg k i s) (after_loopSP K i (drain_rest_at cfg k i s)).
  Proof.
    induction k as [|k IH]; intros F s HF.
    - cbn [drain_rest_at]. cbv [guarded fst snd]. reflexivity.
    - destruct F as [|F]; [lia|].
      cbv [WHSP splice__Splice__drop_ast fn_body]. rewrite exec_while.
      match goal with |- context [xstmt (40 + S F) ?w] => change w with WHSP end.
      remember (xstmt (40 + S F) WHSP) as REC eqn:EREC.
      cbn [drain_rest_at]. cbv [ENVSP after_loopSP bind ret iter_val] in *.
      evg. red1.
      destruct (drain_next_at cfg i s) as [[o| | | | |] s1] eqn:En; red1; try reflexivity.
      destruct o as [e|]; red1.
      + destruct (drop_elem cfg e s1) as [[u| | | | |] s2] eqn:Ed; red1; try reflexivity.
        subst REC. change (40 + S F)%nat with (S (40 + F)). apply (IH F s2). lia.
      + cbv [guarded fst snd].
        subst REC. change (40 + S F)%nat with (S (40 + F)).
        cbv [WHSP splice__Splice__drop_ast fn_body]. rewrite exec_while.
        remember (xstmt (40 + F)) as REC eqn:EREC.
        evg. reflexivity.
  Qed.

  Definition run_splice_drop (fuel : nat) (i : nat) (s : state) : AnsM :=
    @eval_fn mfail state cfg NOF P fuel splice__Splice__drop_ast [iter_val i] s.

  Theorem splice_drop_body_equiv i s k F :
    (k <= F)%nat ->
    fst (drain_rest_at cfg k i s) <> OutOfFuel ->
    run_splice_drop (FUEL + F) i s = lift_m (drain_rest_at cfg k i) vunit s.
  Proof.
    intros HF Hgo.
    unfold run_splice_drop, eval_fn.
    cbv [splice__Splice__drop_ast fn_body fn_params FUEL combine rev app].
    change (120 + F)%nat with (S (119 + F)). rewrite exec_block_S.
    unfold lift_m.
    change (119 + F)%nat with (S (118 + F)).
    rewrite exec_stmts_cons. change (118 + F)%nat with (S (117 + F)). rewrite exec_sexpr_block.
    change (117 + F)%nat with (S (116 + F)). rewrite exec_block_S.
    change (116 + F)%nat with (S (115 + F)).
    next_stmt K2 EK2. evg. subst K2. change (115 + F)%nat with (S (114 + F)).
    rewrite exec_stmts_cons.
    match goal with |- context [xstmt (114 + F) ?w] => change w with WHSP end.
    change [("__go", VBool true); ("self", VCtor "Iter" [VObj i])] with (ENVSP i true).
    change (114 + F)%nat with (S (40 + (73 + F))).
    apply (guarded_elim (drain_rest_at cfg k i s) _ _ Hgo).
    rewrite (loop_equivSP i _ _ k (73 + F)%nat s) by lia.
    f_equal.
  Qed.
End EquivDropGuard.
