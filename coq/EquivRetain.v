(* EquivRetain.v -- retain's body, with its `while read < last` loop, the call of the user's predicate
   on every element, the swap into the write position and the final truncate, evaluates to
   Machine.retain for EVERY script of predicate answers (true / false / panic), every length and both
   profiles.
   The world of the evaluator is the machine state paired with the predicate script: calling the
   closure parameter (Eval.called_closure -> prim "call") runs Machine.pred_call and consumes one
   answer; every other primitive is Prims.prim on the state component.
   The loop is handled by induction on the number of elements still to visit, with the rest of the
   body behind an opaque continuation (as in EquivReserve.v).
   Assumptions at the function boundary (`shape_ok`): the pointer as_mut_ptr() returns is element 0 of
   a block when the vector has elements (len > 0 => allocated), size_of::<T>() > 0. *)
From Coq Require Import ZArith List String Bool Lia.
From MV Require Import Ast Eval Scalar Machine EquivDefs Prims EquivTac.
From MV.Gen Require Import AstGen.
Import ListNotations.
Open Scope string_scope.
Open Scope Z_scope.

Section EquivRetain.
  Variable cfg : tcfg.
  Variable ncap : Z -> option Z.
  Hypothesis Hesz : 0 < esz cfg.
  Variable kind : same_kind.       (* how the two-argument closure of dedup_by behaves (Machine.same_call) *)

  (* ---- the world with a predicate script ---- *)
  Definition WS := (state * list answer)%type.
  Definition AnsS := (outcome mfail val * WS)%type.

  Definition primS (f : string) (args : list val) (w : WS) (k : val -> WS -> AnsS) : AnsS :=
    let '(s, sc) := w in
    if String.eqb f "call" then
      match args with
      | [_; VPtr p] =>
          match pred_call cfg p sc s with
          | (Val r, s') => k (VBool (fst r)) (s', snd r)
          | (Panicking, s') => (Panic, (s', sc))
          | (UB u, s') => (Fail (FUB u), (s', sc))
          | (AllocAbort x y, s') => (Fail (FAllocAbort x y), (s', sc))
          | (Abort, s') => (Fail FAbort, (s', sc))
          | (OutOfFuel, s') => (Fail FNoFuel, (s', sc))
          end
      | [_] =>                                     (* a generator closure `f()`: a fresh element or a panic *)
          match gen_elem sc s with
          | (Val r, s') => k (VInt (fst r)) (s', snd r)
          | (Panicking, s') => (Panic, (s', sc))
          | (UB u, s') => (Fail (FUB u), (s', sc))
          | (AllocAbort x y, s') => (Fail (FAllocAbort x y), (s', sc))
          | (Abort, s') => (Fail FAbort, (s', sc))
          | (OutOfFuel, s') => (Fail FNoFuel, (s', sc))
          end
      | [_; VPtr p; VPtr q] =>
          match pair_call cfg kind p q sc s with
          | (Val r, s') => k (VBool (fst r)) (s', snd r)
          | (Panicking, s') => (Panic, (s', sc))
          | (UB u, s') => (Fail (FUB u), (s', sc))
          | (AllocAbort x y, s') => (Fail (FAllocAbort x y), (s', sc))
          | (Abort, s') => (Fail FAbort, (s', sc))
          | (OutOfFuel, s') => (Fail FNoFuel, (s', sc))
          end
      | _ => (Stuck "call", w)
      end
    else
      match prim cfg ncap f args s (fun v s' => (Norm v, s')) with
      | (Norm v, s') => k v (s', sc)
      | (Ret v, s') => (Ret v, (s', sc))
      | (Panic, s') => (Panic, (s', sc))
      | (Fail x, s') => (Fail x, (s', sc))
      | (Stuck m, s') => (Stuck m, (s', sc))
      | (NoFuel, s') => (NoFuel, (s', sc))
      end.

  (* forget the script *)
  Definition projS (a : AnsS) : outcome mfail val * state := (fst a, fst (snd a)).

  Local Notation NOF := (fun _ : string => @None fn_ast).
  Local Notation xstmts := (@exec_stmts mfail WS cfg NOF primS).
  Local Notation xstmt := (@exec_stmt mfail WS cfg NOF primS).
  Local Notation xblock := (@exec_block mfail WS cfg NOF primS).
  Local Notation xexpr := (@eval_expr mfail WS cfg NOF primS).

  Lemma exec_stmts_cons F s ss en w kr k :
    xstmts (S F) (s :: ss) en w kr k =
    xstmt F s en w kr (fun en w => xstmts F ss en w kr k).
  Proof. reflexivity. Qed.

  Lemma exec_block_S F ss tail en w kr k :
    xblock (S F) (Blk ss tail) en w kr k =
    xstmts F ss en w kr (fun en' w =>
      match tail with
      | Some e => xexpr F e en' w kr (fun v w => k v (restore en en') w)
      | None => k VUnit (restore en en') w
      end).
  Proof. reflexivity. Qed.

  Lemma exec_while F c b en w kr k :
    xstmt (S F) (SWhile c b) en w kr k =
    xexpr F c en w kr (fun vc w =>
      match vc with
      | VBool true => xblock F b en w kr (fun _ en w => xstmt F (SWhile c b) en w kr k)
      | VBool false => k en w
      | _ => (Stuck "while on non-boolean", w)
      end).
  Proof. reflexivity. Qed.

  Ltac evr := cbv -[Z.add Z.sub Z.mul Z.div Z.modulo Z.eqb Z.ltb Z.leb Z.max Z.min Z.land Z.to_nat W64 ISIZE_MAX
                  release esz ealign needs_drop is_pow2 layout_ok
                  is_default len capacity alignment vec_handle hdr_block truncate
                  data as_ptr set_len add_len slot_read slot_write slot_swap
                  get_block put_block set_handle retain_loop dedup_loop same_call
                  nth_error heap vecs projS].

  Ltac next_stmt K EK :=
    rewrite exec_stmts_cons;
    match goal with |- context [@exec_stmt _ _ _ _ _ _ _ _ _ _ ?k] => remember k as K eqn:EK end.

  (* ---- the loop ---- *)
  Definition WH : stmt :=
    SWhile (EBin Lt (EVar "read") (EVar "last"))
      (Blk [SLet ["should_retain"] (EBlock (Blk [] (Some (ECall "f" [EVar "read"]))));
            SExpr (EIf (EVar "should_retain")
                       (Blk [SExpr (EIf (EBin Ne (EVar "read") (EVar "write"))
                                        (Blk [] (Some (EBlock (Blk [SExpr (ECall "swap" [EVar "read"; EVar "write"])] None)))) None);
                             SAssign "write" (EBlock (Blk [] (Some (ECall ".add" [EVar "write"; ELit 1]))))] None) None);
            SAssign "read" (EBlock (Blk [] (Some (ECall ".add" [EVar "read"; ELit 1]))))] None).

  Definition CLOS : val := VCtor "Closure" [].
  Definition ENV (b : nat) (off l r w : Z) (v : nat) : env :=
    [("last", VPtr (PElt b off l)); ("write", VPtr (PElt b off w)); ("read", VPtr (PElt b off r));
     ("data", VPtr (PElt b off 0)); ("len", VInt l); ("f", CLOS); ("self", VObj v)].

  Definition after_loop (K : env -> WS -> AnsS) (b : nat) (off l : Z) (v : nat) (r : res Z * state) : outcome mfail val * state :=
    match r with
    | (Val w', s') => projS (K (ENV b off l l w' v) (s', []))
    | (Panicking, s') => (Panic, s')
    | (UB u, s') => (Fail (FUB u), s')
    | (AllocAbort x y, s') => (Fail (FAllocAbort x y), s')
    | (Abort, s') => (Fail FAbort, s')
    | (OutOfFuel, s') => (Fail FNoFuel, s')
    end.

  (* the continuation after the loop does not look at the script *)
  Definition script_blind (b : nat) (off l : Z) (v : nat) (K : env -> WS -> AnsS) : Prop :=
    forall w s sc1 sc2, projS (K (ENV b off l l w v) (s, sc1)) = projS (K (ENV b off l l w v) (s, sc2)).

  Lemma loop_equiv b off l v kr K (HK : script_blind b off l v K) : forall k r w F sc s,
    0 <= r <= l -> l - r <= Z.of_nat k -> (k <= F)%nat ->
    projS (xstmt (S (30 + F)) WH (ENV b off l r w v) (s, sc) kr K) =
    after_loop K b off l v (retain_loop cfg k (PElt b off 0) l r w sc s).
  Proof.
    induction k as [|k IH]; intros r w F sc s Hr Hk HF.
    - (* no element left *)
      assert (r = l) by lia. subst r.
      unfold WH. rewrite exec_while. fold WH.
      remember (xstmt (30 + F) WH) as REC eqn:EREC.
      cbn [retain_loop]. cbv [ENV after_loop].
      evr. rewrite Nat.eqb_refl, Z.ltb_irrefl. apply HK.
    - destruct F as [|F]; [lia|].
      unfold WH. rewrite exec_while. fold WH.
      remember (xstmt (30 + S F) WH) as REC eqn:EREC.
      cbn [retain_loop]. cbv [ENV after_loop] in *.
      evr. rewrite ?Z.add_0_l, ?Nat.eqb_refl.
      destruct (Z.ltb_spec r l) as [Hlt|Hge]; destruct (Z.leb_spec l r) as [Hle|Hgt]; try lia.
      2:{ assert (r = l) by lia. subst r. apply HK. }
      red1.
      repeat first
        [ reflexivity
        | match goal with
          | |- projS (REC _ _ _ _) = _ =>
              subst REC; change (30 + S F)%nat with (S (30 + F));
              rewrite IH by lia; reflexivity
          end
        | step ].
  Qed.
  Lemma Z2Nat_nonpos z : z <= 0 -> Z.to_nat z = O.
  Proof. intros H. destruct z; try reflexivity. lia. Qed.

  (* ---- the whole body ---- *)
  Definition shape_ok (v : nat) (s : state) : Prop :=
    forall l s1 d s2, len v s = (Val l, s1) -> as_ptr cfg v s1 = (Val d, s2) ->
      (exists b off, d = PElt b off 0 /\ 0 <= l) \/ (d = PNull /\ l <= 0).

  Definition run_retain (fuel : nat) (v : nat) (sc : list answer) (s : state) : outcome mfail val * state :=
    projS (@eval_fn mfail WS cfg NOF primS fuel lib__MiniVec__retain_ast [VObj v; CLOS] (s, sc)).

  Theorem retain_equiv v sc s F :
    shape_ok v s ->
    (forall l s1, len v s = (Val l, s1) -> (Z.to_nat l <= F)%nat) ->
    run_retain (FUEL + F) v sc s = lift_m (retain cfg v sc) vunit s.
  Proof.
    intros Hshape HF.
    unfold run_retain, eval_fn. cbv [lib__MiniVec__retain_ast fn_body fn_params FUEL combine rev app].
    change (120 + F)%nat with (S (119 + F)). rewrite exec_block_S.
    cbv [retain bind ret lift_m vunit].
    change (119 + F)%nat with (S (118 + F)).
    next_stmt K1 EK1. evr. red1.
    destruct (len v s) as [[l| | | | |] s1] eqn:Elen; try reflexivity.
    subst K1. change (118 + F)%nat with (S (117 + F)).
    next_stmt K2 EK2. evr. red1.
    destruct (as_ptr cfg v s1) as [[d| | | | |] s2] eqn:Eptr; try reflexivity.
    pose proof (HF _ _ eq_refl) as HlF.
    destruct (Hshape _ _ _ _ Elen Eptr) as [(b & off & -> & Hl0)|[-> Hl0]].
    - (* allocated: element 0 of block b *)
      subst K2. change (117 + F)%nat with (S (116 + F)).
      next_stmt K3 EK3. evr. subst K3. change (116 + F)%nat with (S (115 + F)).
      next_stmt K4 EK4. evr. subst K4. change (115 + F)%nat with (S (114 + F)).
      next_stmt K5 EK5. evr. rewrite ?Z.add_0_l. subst K5. change (114 + F)%nat with (S (113 + F)).
      rewrite exec_stmts_cons.
      change (SWhile _ _) with WH.
      change [("last", VPtr (PElt b off l)); ("write", VPtr (PElt b off 0)); ("read", VPtr (PElt b off 0));
              ("data", VPtr (PElt b off 0)); ("len", VInt l); ("f", VCtor "Closure" []); ("self", VObj v)]
        with (ENV b off l 0 0 v).
      change (113 + F)%nat with (S (30 + (82 + F))).
      rewrite (loop_equiv b off l v _ _) with (k := Z.to_nat l); [| |lia|lia|lia].
      + destruct (retain_loop cfg (Z.to_nat l) (PElt b off 0) l 0 0 sc s2) as [[w| | | | |] s3]; cbv [after_loop]; try reflexivity.
        cbv [ENV]. rewrite exec_stmts_cons. evr. rewrite ?Nat.eqb_refl, ?Z.sub_0_r.
        assert (E0 : (esz cfg =? 0) = false) by (apply Z.eqb_neq; lia). rewrite E0.
        rewrite Z.div_mul by lia. red1.
        destruct (truncate cfg v w s3) as [[u| | | | |] s4]; reflexivity.
      + intros w s0 sc1 sc2. cbv [ENV]. rewrite !exec_stmts_cons. evr.
        rewrite ?Nat.eqb_refl.
        destruct (esz cfg =? 0); [reflexivity|]. red1.
        destruct (truncate cfg v ((w - 0) * esz cfg / esz cfg) s0) as [[u| | | | |] s4]; reflexivity.
    - (* never allocated (or garbage length <= 0): the loop is not entered *)
      subst K2. change (117 + F)%nat with (S (116 + F)).
      next_stmt K3 EK3. evr. subst K3. change (116 + F)%nat with (S (115 + F)).
      next_stmt K4 EK4. evr. subst K4. change (115 + F)%nat with (S (114 + F)).
      next_stmt K5 EK5. evr. subst K5. change (114 + F)%nat with (S (113 + F)).
      rewrite (Z2Nat_nonpos l Hl0). cbn [retain_loop].
      evr. red1.
      assert (E0 : (esz cfg =? 0) = false) by (apply Z.eqb_neq; lia). rewrite E0.
      change (0 * esz cfg / esz cfg) with (0 * esz cfg / esz cfg). rewrite Z.mul_0_l, Z.div_0_l by lia. red1.
      destruct (truncate cfg v 0 s2) as [[u| | | | |] s4]; reflexivity.
  Qed.
  (* ================================================================ dedup_by ================= *)
  Definition WHD : stmt :=
    SWhile (EBin Lt (EVar "read") (EVar "last"))
      (Blk [SLet ["matches"] (EBlock (Blk [] (Some (ECall "pred" [EVar "read"; ECall ".sub" [EVar "write"; ELit 1]]))));
            SExpr (EIf (ENot (EVar "matches"))
                       (Blk [SExpr (EIf (EBin Ne (EVar "read") (EVar "write"))
                                        (Blk [] (Some (EBlock (Blk [SExpr (ECall "swap" [EVar "read"; EVar "write"])] None)))) None);
                             SAssign "write" (EBlock (Blk [] (Some (ECall ".add" [EVar "write"; ELit 1]))))] None) None);
            SAssign "read" (EBlock (Blk [] (Some (ECall ".add" [EVar "read"; ELit 1]))))] None).

  Definition ENVD (b : nat) (off l r w : Z) (v : nat) : env :=
    [("last", VPtr (PElt b off l)); ("write", VPtr (PElt b off w)); ("read", VPtr (PElt b off r));
     ("data", VPtr (PElt b off 0)); ("len", VInt l); ("pred", CLOS); ("self", VObj v)].

  Definition after_loopD (K : env -> WS -> AnsS) (b : nat) (off l : Z) (v : nat) (r : res Z * state) : outcome mfail val * state :=
    match r with
    | (Val w', s') => projS (K (ENVD b off l l w' v) (s', []))
    | (Panicking, s') => (Panic, s')
    | (UB u, s') => (Fail (FUB u), s')
    | (AllocAbort x y, s') => (Fail (FAllocAbort x y), s')
    | (Abort, s') => (Fail FAbort, s')
    | (OutOfFuel, s') => (Fail FNoFuel, s')
    end.

  Definition script_blindD (b : nat) (off l : Z) (v : nat) (K : env -> WS -> AnsS) : Prop :=
    forall w s sc1 sc2, projS (K (ENVD b off l l w v) (s, sc1)) = projS (K (ENVD b off l l w v) (s, sc2)).

  Ltac minus_one :=
    repeat match goal with
           | |- context [?x + -1] => change (x + -1) with (x - 1)
           end.

  Lemma loop_equivD b off l v kr K (HK : script_blindD b off l v K) : forall k r w F sc s,
    0 <= r <= l -> l - r <= Z.of_nat k -> (k <= F)%nat ->
    projS (xstmt (S (30 + F)) WHD (ENVD b off l r w v) (s, sc) kr K) =
    after_loopD K b off l v (dedup_loop cfg k kind (PElt b off 0) l r w sc s).
  Proof.
    induction k as [|k IH]; intros r w F sc s Hr Hk HF.
    - assert (r = l) by lia. subst r.
      unfold WHD. rewrite exec_while. fold WHD.
      remember (xstmt (30 + F) WHD) as REC eqn:EREC.
      cbn [dedup_loop]. cbv [ENVD after_loopD].
      evr. rewrite Nat.eqb_refl, Z.ltb_irrefl. apply HK.
    - destruct F as [|F]; [lia|].
      unfold WHD. rewrite exec_while. fold WHD.
      remember (xstmt (30 + S F) WHD) as REC eqn:EREC.
      cbn [dedup_loop]. cbv [ENVD after_loopD] in *.
      evr. rewrite ?Z.add_0_l, ?Nat.eqb_refl. minus_one.
      destruct (Z.ltb_spec r l) as [Hlt|Hge]; destruct (Z.leb_spec l r) as [Hle|Hgt]; try lia.
      2:{ assert (r = l) by lia. subst r. apply HK. }
      red1.
      repeat first
        [ reflexivity
        | match goal with
          | |- projS (REC _ _ _ _) = _ =>
              subst REC; change (30 + S F)%nat with (S (30 + F));
              rewrite IH by lia; reflexivity
          end
        | step ].
  Qed.
  Definition shape_okD (v : nat) (s : state) : Prop :=
    forall l s1 d s2, len v s = (Val l, s1) -> 2 <= l -> as_ptr cfg v s1 = (Val d, s2) ->
      exists b off, d = PElt b off 0.

  Definition run_dedup (fuel : nat) (v : nat) (sc : list answer) (s : state) : outcome mfail val * state :=
    projS (@eval_fn mfail WS cfg NOF primS fuel lib__MiniVec__dedup_by_ast [VObj v; CLOS] (s, sc)).

  Theorem dedup_by_equiv v sc s F :
    shape_okD v s ->
    (forall l s1, len v s = (Val l, s1) -> (Z.to_nat l <= F)%nat) ->
    run_dedup (FUEL + F) v sc s = lift_m (dedup_by cfg v kind sc) vunit s.
  Proof.
    intros Hshape HF.
    unfold run_dedup, eval_fn. cbv [lib__MiniVec__dedup_by_ast fn_body fn_params FUEL combine rev app].
    change (120 + F)%nat with (S (119 + F)). rewrite exec_block_S.
    cbv [dedup_by bind ret lift_m vunit].
    change (119 + F)%nat with (S (118 + F)).
    next_stmt K1 EK1. evr. red1.
    destruct (len v s) as [[l| | | | |] s1] eqn:Elen; try reflexivity.
    pose proof (HF _ _ eq_refl) as HlF.
    subst K1. change (118 + F)%nat with (S (117 + F)).
    next_stmt K2 EK2. evr. red1.
    destruct (Z.ltb_spec l 2) as [Hsmall|Hbig]; red1; [reflexivity|].
    subst K2. change (117 + F)%nat with (S (116 + F)).
    next_stmt K3 EK3. evr. red1.
    destruct (as_ptr cfg v s1) as [[d| | | | |] s2] eqn:Eptr; try reflexivity.
    destruct (Hshape _ _ _ _ Elen Hbig Eptr) as (b & off & ->).
    subst K3. change (116 + F)%nat with (S (115 + F)).
    next_stmt K4 EK4. evr. subst K4. change (115 + F)%nat with (S (114 + F)).
    next_stmt K5 EK5. evr. subst K5. change (114 + F)%nat with (S (113 + F)).
    next_stmt K6 EK6. evr. rewrite ?Z.add_0_l. subst K6. change (113 + F)%nat with (S (112 + F)).
    rewrite exec_stmts_cons.
    change (SWhile _ _) with WHD.
    change [("last", VPtr (PElt b off l)); ("write", VPtr (PElt b off 1)); ("read", VPtr (PElt b off 1));
            ("data", VPtr (PElt b off 0)); ("len", VInt l); ("pred", VCtor "Closure" []); ("self", VObj v)]
      with (ENVD b off l 1 1 v).
    change (112 + F)%nat with (S (30 + (81 + F))).
    rewrite (loop_equivD b off l v _ _) with (k := Z.to_nat l); [| |lia|lia|lia].
    - destruct (dedup_loop cfg (Z.to_nat l) kind (PElt b off 0) l 1 1 sc s2) as [[w| | | | |] s3]; cbv [after_loopD]; try reflexivity.
      cbv [ENVD]. rewrite exec_stmts_cons. evr. rewrite ?Nat.eqb_refl, ?Z.sub_0_r.
      assert (E0 : (esz cfg =? 0) = false) by (apply Z.eqb_neq; lia). rewrite E0.
      rewrite Z.div_mul by lia. red1.
      destruct (truncate cfg v w s3) as [[u| | | | |] s4]; reflexivity.
    - intros w s0 sc1 sc2. cbv [ENVD]. rewrite !exec_stmts_cons. evr.
      rewrite ?Nat.eqb_refl.
      destruct (esz cfg =? 0); [reflexivity|]. red1.
      destruct (truncate cfg v ((w - 0) * esz cfg / esz cfg) s0) as [[u| | | | |] s4]; reflexivity.
  Qed.
End EquivRetain.
