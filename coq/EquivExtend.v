(* EquivExtend.v -- `impl Extend<T> for MiniVec<T>` (src/impl/extend.rs): `for x in iter { self.push(x) }`
   over ANY iterator.  The iterator is user code: in the world it is a script of answers (Some(fresh
   element) / None / panic, Machine.iter_next), carried by the value `VCtor "Script"`; the translator's
   rendering of the `for` loop asks `for:next` (one answer of the script is consumed, an element may be
   created, the call may panic) and continues with `for:rest` (the script after that answer).
   Evaluated by the IR semantics the body is Machine.extend -- for every vector, every script (any
   length, panics anywhere, `Some` again after `None` never asked for), every state and both profiles;
   induction over the machine's fuel, which `extend` sets above the length of the script. *)
From Coq Require Import ZArith List String Bool Lia.
From MV Require Import Ast Eval Scalar Machine EquivDefs Prims EquivTac.
From MV.Gen Require Import AstGen.
Import ListNotations.
Open Scope string_scope.
Open Scope Z_scope.

Section EquivExtend.
  Variable cfg : tcfg.
  Variable ncap : Z -> option Z.

  Local Notation P := (prim cfg ncap).
  Local Notation NOF := (fun _ : string => @None fn_ast).
  Local Notation AnsM := (outcome mfail val * state)%type.
  Local Notation xstmts := (@exec_stmts mfail state cfg NOF P).
  Local Notation xstmt := (@exec_stmt mfail state cfg NOF P).
  Local Notation xblock := (@exec_block mfail state cfg NOF P).
  Local Notation xexpr := (@eval_expr mfail state cfg NOF P).

  Lemma exec_stmts_cons F s ss en w kr k :
    xstmts (S F) (s :: ss) en w kr k = xstmt F s en w kr (fun en w => xstmts F ss en w kr k).
  Proof. reflexivity. Qed.
  Lemma exec_block_S F ss tail en w kr k :
    xblock (S F) (Blk ss tail) en w kr k =
    xstmts F ss en w kr (fun en' w =>
      match tail with
      | Some e => xexpr F e en' w kr (fun v w => k v (restore en en') w)
      | None => k VUnit (restore en en') w
      end).
  Proof. reflexivity. Qed.
  Lemma exec_sexpr_block F b en w kr k :
    xstmt (S F) (SExpr (EBlock b)) en w kr k = xblock F b en w kr (fun _ en w => k en w).
  Proof. reflexivity. Qed.
  Lemma exec_while F c b en w kr k :
    xstmt (S F) (SWhile c b) en w kr k =
    xexpr F c en w kr (fun vc w =>
      match vc with
      | VBool true => xblock F b en w kr (fun _ en w => xstmt F (SWhile c b) en w kr k)
      | VBool false => k en w
      | _ => (Stuck "while on non-boolean", w)
      end).
  Proof. reflexivity. Qed.

  
  Definition script_val (sc : list answer) : val := VCtor "Script" (map VInt sc).

  Definition WHE : stmt :=
    match fn_body extend__MiniVec__extend_2_ast with
    | Blk [SExpr (EBlock (Blk [_; _; w] _))] _ => w
    | _ => SForeign "no loop"
    end.
  Definition ENVE (v : nat) (it0 : val) (vs : list val) (go : bool) : env :=
    [("__go", VBool go); ("__it", VCtor "Script" vs); ("iter", it0); ("self", VObj v)].

  (* where the loop leaves its hidden locals: the script after the answer that ended it *)
  Definition after_loopE (K : env -> state -> AnsM) (v : nat) (it0 : val) (r : res (list answer) * state) : AnsM :=
    match r with
    | (Val sc', s') => K (ENVE v it0 (map VInt sc') false) s'
    | (Panicking, s') => (Panic, s')
    | (UB u, s') => (Fail (FUB u), s')
    | (AllocAbort x y, s') => (Fail (FAllocAbort x y), s')
    | (Abort, s') => (Fail FAbort, s')
    | (OutOfFuel, s') => (Fail FNoFuel, s')
    end.

  Ltac eve := cbv -[Z.add Z.sub Z.mul Z.div Z.modulo Z.eqb Z.ltb Z.leb Z.max Z.min Z.land Z.to_nat Z.of_nat W64 ISIZE_MAX
                  release esz ealign needs_drop is_pow2 layout_ok
                  is_default len capacity alignment vec_handle hdr_block reserve
                  push iter_next extend_loop ints_of map pop_script A_N new_obj
                  get_block put_block set_handle
                  nth_error heap vecs].

  Ltac known :=
    repeat match goal with
           | H : ?x = (_, _) |- context [?x] => rewrite H; red1
           end.

  (* the continuation after the loop does not look at the hidden iterator *)
  Definition it_blind (K : env -> state -> AnsM) (v : nat) (it0 : val) : Prop :=
    forall vs1 vs2 s, K (ENVE v it0 vs1 false) s = K (ENVE v it0 vs2 false) s.

  Lemma iter_next_rest sc s o sc' s1 :
    iter_next sc s = (Val (o, sc'), s1) -> sc' = snd (pop_script sc A_N).
  Proof.
    unfold iter_next. destruct (pop_script sc A_N) as [x sc0]. cbn [snd].
    destruct (x =? A_P); [cbv; discriminate|].
    destruct (x =? A_S); cbv; intros E; inversion E; reflexivity.
  Qed.
  Lemma iter_next_nil s e sc' s1 : iter_next [] s <> (Val (Some e, sc'), s1).
  Proof. cbv. discriminate. Qed.

  Lemma loop_equivE v it0 kr K (HK : it_blind K v it0) : forall k sc vs F s,
    vs = map VInt sc ->
    (List.length sc < k)%nat -> (k <= F)%nat ->
    xstmt (S (40 + F)) WHE (ENVE v it0 vs true) s kr K = after_loopE K v it0 (extend_loop cfg ncap k v sc s).
  Proof.
    induction k as [|k IH]; intros sc vs F s Evs Hk HF; [lia|].
    destruct F as [|F]; [lia|].
    subst vs.
    cbv [WHE extend__MiniVec__extend_2_ast fn_body]. rewrite exec_while.
    match goal with |- context [xstmt (40 + S F) ?w] => change w with WHE end.
    remember (xstmt (40 + S F) WHE) as REC eqn:EREC.
    cbn [extend_loop]. cbv [ENVE after_loopE bind ret] in *.
    eve. rewrite ?ints_of_map. red1.
    destruct (iter_next sc s) as [[[o sc']| | | | |] s1] eqn:En; red1; try reflexivity.
    pose proof (iter_next_rest _ _ _ _ _ En) as Hsc.
    destruct o as [e|]; red1.
    - rewrite ?ints_of_map.
      match goal with
      | |- context [("__it", VCtor "Script" (map VInt ?t))] =>
          replace t with sc' by (rewrite Hsc; reflexivity)
      end.
      destruct (push cfg ncap v e s1) as [[u| | | | |] s2] eqn:Ep; red1; try reflexivity.
      subst REC. change (40 + S F)%nat with (S (40 + F)).
      apply (IH sc' (map VInt sc') F s2 eq_refl); [|lia].
      destruct sc as [|a sc0]; [exfalso; exact (iter_next_nil _ _ _ _ En)|].
      cbn in Hsc. subst sc'. simpl in Hk. lia.
    - subst REC. change (40 + S F)%nat with (S (40 + F)).
      cbv [WHE extend__MiniVec__extend_2_ast fn_body]. rewrite exec_while.
      remember (xstmt (40 + F)) as REC eqn:EREC.
      eve. apply HK.
  Qed.

  (* ---- the whole body ---- *)
  Definition run_extend (fuel : nat) (v : nat) (sc : list answer) (s : state) : AnsM :=
    @eval_fn mfail state cfg NOF P fuel extend__MiniVec__extend_2_ast [VObj v; script_val sc] s.

  Ltac next_stmt K EK :=
    rewrite exec_stmts_cons;
    match goal with |- context [@exec_stmt _ _ _ _ _ _ _ _ _ _ ?k] => remember k as K eqn:EK end.

  Theorem extend_equiv v sc s F :
    (S (List.length sc) <= F)%nat ->
    run_extend (FUEL + F) v sc s = lift_m (extend cfg ncap v sc) (fun _ => VUnit) s.
  Proof.
    intros HF.
    unfold run_extend, eval_fn, script_val.
    remember (map VInt sc) as vs eqn:Evs.
    cbv [extend__MiniVec__extend_2_ast fn_body fn_params FUEL combine rev app].
    change (120 + F)%nat with (S (119 + F)). rewrite exec_block_S.
    unfold lift_m, extend.
    remember (extend_loop cfg ncap (S (List.length sc)) v sc s) as R eqn:ER.
    change (119 + F)%nat with (S (118 + F)).
    rewrite exec_stmts_cons. change (118 + F)%nat with (S (117 + F)). rewrite exec_sexpr_block.
    change (117 + F)%nat with (S (116 + F)). rewrite exec_block_S.
    change (116 + F)%nat with (S (115 + F)).
    next_stmt K2 EK2. eve. subst K2. change (115 + F)%nat with (S (114 + F)).
    next_stmt K3 EK3. eve. subst K3. change (114 + F)%nat with (S (113 + F)).
    rewrite exec_stmts_cons.
    match goal with |- context [xstmt (113 + F) ?w] => change w with WHE end.
    change [("__go", VBool true); ("__it", VCtor "Script" vs); ("iter", VCtor "Script" vs); ("self", VObj v)]
      with (ENVE v (VCtor "Script" vs) vs true).
    change (113 + F)%nat with (S (40 + (72 + F))).
    match goal with
    | |- xstmt _ WHE _ _ ?kr ?K = _ =>
        assert (HK : it_blind K v (VCtor "Script" vs)) by (intros vs1 vs2 s0; reflexivity);
        rewrite (loop_equivE v (VCtor "Script" vs) kr K HK (S (List.length sc)) sc vs (72 + F)%nat s Evs) by (unfold answer in *; lia)
    end.
    rewrite <- ER.
    destruct R as [[sc'| | | | |] s2]; cbv [after_loopE]; try reflexivity.
  Qed.

  (* ================= impl FromIterator (src/impl/from_iterator.rs) =================
     `let mut v = MiniVec::new(); let it = iter.into_iter(); for x in it { v.push(x) }; v`
     as written: a new object of the world, the same loop, the object returned.  Machine.from_iter is
     this body with the name of the new vector given and Rust's unwinding glue (the local `v` is dropped
     when the loop unwinds). *)
  Definition from_iter_body (sc : list answer) : M nat :=
    w <- new_obj cfg ;; extend cfg ncap w sc ;;; ret w.

  Definition WHF : stmt :=
    match fn_body from_iterator__MiniVec__from_iter_ast with
    | Blk [_; _; SExpr (EBlock (Blk [_; _; w] _))] _ => w
    | _ => SForeign "no loop"
    end.
  Definition ENVF (w : nat) (it0 : val) (vs : list val) (go : bool) : env :=
    [("__go", VBool go); ("__it", VCtor "Script" vs); ("it", it0); ("v", VObj w); ("iter", it0)].

  Definition after_loopF (K : env -> state -> AnsM) (w : nat) (it0 : val) (r : res (list answer) * state) : AnsM :=
    match r with
    | (Val sc', s') => K (ENVF w it0 (map VInt sc') false) s'
    | (Panicking, s') => (Panic, s')
    | (UB u, s') => (Fail (FUB u), s')
    | (AllocAbort x y, s') => (Fail (FAllocAbort x y), s')
    | (Abort, s') => (Fail FAbort, s')
    | (OutOfFuel, s') => (Fail FNoFuel, s')
    end.
  Definition it_blindF (K : env -> state -> AnsM) (w : nat) (it0 : val) : Prop :=
    forall vs1 vs2 s, K (ENVF w it0 vs1 false) s = K (ENVF w it0 vs2 false) s.

  Lemma loop_equivFI w it0 kr K (HK : it_blindF K w it0) : forall k sc vs F s,
    vs = map VInt sc ->
    (List.length sc < k)%nat -> (k <= F)%nat ->
    xstmt (S (40 + F)) WHF (ENVF w it0 vs true) s kr K = after_loopF K w it0 (extend_loop cfg ncap k w sc s).
  Proof.
    induction k as [|k IH]; intros sc vs F s Evs Hk HF; [lia|].
    destruct F as [|F]; [lia|].
    subst vs.
    cbv [WHF from_iterator__MiniVec__from_iter_ast fn_body]. rewrite exec_while.
    match goal with |- context [xstmt (40 + S F) ?x] => change x with WHF end.
    remember (xstmt (40 + S F) WHF) as REC eqn:EREC.
    cbn [extend_loop]. cbv [ENVF after_loopF bind ret] in *.
    eve. rewrite ?ints_of_map. red1.
    destruct (iter_next sc s) as [[[o sc']| | | | |] s1] eqn:En; red1; try reflexivity.
    pose proof (iter_next_rest _ _ _ _ _ En) as Hsc.
    destruct o as [e|]; red1.
    - rewrite ?ints_of_map.
      match goal with
      | |- context [("__it", VCtor "Script" (map VInt ?t))] =>
          replace t with sc' by (rewrite Hsc; reflexivity)
      end.
      destruct (push cfg ncap w e s1) as [[u| | | | |] s2] eqn:Ep; red1; try reflexivity.
      subst REC. change (40 + S F)%nat with (S (40 + F)).
      apply (IH sc' (map VInt sc') F s2 eq_refl); [|lia].
      destruct sc as [|a sc0]; [exfalso; exact (iter_next_nil _ _ _ _ En)|].
      cbn in Hsc. subst sc'. simpl in Hk. lia.
    - subst REC. change (40 + S F)%nat with (S (40 + F)).
      cbv [WHF from_iterator__MiniVec__from_iter_ast fn_body]. rewrite exec_while.
      remember (xstmt (40 + F)) as REC eqn:EREC.
      eve. apply HK.
  Qed.

  Definition run_from_iter (fuel : nat) (sc : list answer) (s : state) : AnsM :=
    @eval_fn mfail state cfg NOF P fuel from_iterator__MiniVec__from_iter_ast [script_val sc] s.

  Theorem from_iter_equiv sc s F :
    (S (List.length sc) <= F)%nat ->
    run_from_iter (FUEL + F) sc s = lift_m (from_iter_body sc) VObj s.
  Proof.
    intros HF.
    unfold run_from_iter, eval_fn, script_val.
    remember (map VInt sc) as vs eqn:Evs.
    cbv [from_iterator__MiniVec__from_iter_ast fn_body fn_params FUEL combine rev app].
    change (120 + F)%nat with (S (119 + F)). rewrite exec_block_S.
    unfold lift_m, from_iter_body, extend. cbv [bind ret].
    remember (extend_loop cfg ncap (S (List.length sc))) as EL eqn:EEL.
    change (119 + F)%nat with (S (118 + F)).
    next_stmt K1 EK1. eve. red1.
    destruct (new_obj cfg s) as [[w| | | | |] s0] eqn:En; try reflexivity.
    remember (EL w sc s0) as R eqn:ER.
    subst K1. change (118 + F)%nat with (S (117 + F)).
    next_stmt K1 EK1. eve. subst K1. change (117 + F)%nat with (S (116 + F)).
    rewrite exec_stmts_cons. change (116 + F)%nat with (S (115 + F)). rewrite exec_sexpr_block.
    change (115 + F)%nat with (S (114 + F)). rewrite exec_block_S.
    change (114 + F)%nat with (S (113 + F)).
    next_stmt K2 EK2. eve. subst K2. change (113 + F)%nat with (S (112 + F)).
    next_stmt K3 EK3. eve. subst K3. change (112 + F)%nat with (S (111 + F)).
    rewrite exec_stmts_cons.
    match goal with |- context [xstmt (111 + F) ?x] => change x with WHF end.
    change [("__go", VBool true); ("__it", VCtor "Script" vs); ("it", VCtor "Script" vs); ("v", VObj w); ("iter", VCtor "Script" vs)]
      with (ENVF w (VCtor "Script" vs) vs true).
    change (111 + F)%nat with (S (40 + (70 + F))).
    match goal with
    | |- xstmt _ WHF _ _ ?kr ?K = _ =>
        assert (HK : it_blindF K w (VCtor "Script" vs)) by (intros vs1 vs2 s'; reflexivity);
        rewrite (loop_equivFI w (VCtor "Script" vs) kr K HK (S (List.length sc)) sc vs (70 + F)%nat s0 Evs) by (unfold answer in *; lia)
    end.
    rewrite <- EEL, <- ER.
    destruct R as [[sc'| | | | |] s2]; cbv [after_loopF]; try reflexivity.
  Qed.
End EquivExtend.
