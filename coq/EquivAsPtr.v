(* EquivAsPtr.v -- see EquivElem.v: `as_ptr` (null for the never-allocated vector) = Machine.as_ptr *)
From Coq Require Import ZArith List String Bool Lia.
From MV Require Import Ast Eval Scalar Machine EquivDefs Prims EquivTac EquivElem.
From MV.Gen Require Import AstGen.
Import ListNotations.
Open Scope string_scope.
Open Scope Z_scope.

Section S.
  Variable cfg : tcfg.
  Variable ncap : Z -> option Z.
  Local Notation runm := (runm cfg ncap).

  Lemma as_ptr_equiv v s :
    runm lib__MiniVec__as_ptr_ast [VObj v] s = lift_m (as_ptr cfg v) eptr_val s.
  Proof. unfold runm. evm. cbv [as_ptr bind ret lift_m vunit eptr_val]. sym. Qed.

  (* MiniVec::new(): no operation on the world at all -- no allocation -- and the value returned is the
     handle that points at the static sentinel byte (refused only for zero-sized element types) *)
  Lemma new_equiv s :
    runm lib__MiniVec__new_ast [] s = ((if 0 <? esz cfg then Norm (minivec_val Sentinel) else Panic), s).
  Proof. unfold runm. evm. destruct (0 <? esz cfg); reflexivity. Qed.

  (* is_default(): `core::ptr::eq(self.buf.as_ptr(), DEFAULT_U8)` = Machine.is_default (is the handle the
     shared sentinel?) -- the test every entry point relies on before it touches a header *)
  Lemma is_default_equiv v s :
    runm lib__MiniVec__is_default_ast [VObj v] s = lift_m (is_default v) VBool s.
  Proof. unfold runm. evm. cbv [is_default bind ret lift_m]. sym. Qed.
End S.
