(* EquivExtSlice.v -- `MiniVec::extend_from_slice` (src/lib.rs): `self.reserve(elems.len())` and the loop
   `for x in elems { self.push(x.clone()) }` (x dereferenced).  The translator renders a `for` loop over an iterable
   with the IR's own constructs (a hidden iterator local, a `while` over a flag, a statement-level `if`
   on whether `next` gave `Some`):
     { let __it = for:into_iter(elems); let __go = true;
       while __go { let __nx = for:next(__it);
                    if (match __nx { Some(_) => true, _ => false })
                      { let x = match __nx { Some(x) => x, .. }; __it = for:rest(__it); { self.push(x.clone()) } }
                    else { __go = false } } }
   A slice argument is the list of its element identities; the world gives `for:next` / `for:rest` as head
   and tail.  Evaluated by the IR semantics the body is Machine.extend_from_slice (reserve, then
   push_clones: T::clone of each element, pushed) for every vector, every slice, every state and both
   profiles -- induction over the slice. *)
From Coq Require Import ZArith List String Bool Lia.
From MV Require Import Ast Eval Scalar Machine EquivDefs Prims EquivTac.
From MV.Gen Require Import AstGen.
Import ListNotations.
Open Scope string_scope.
Open Scope Z_scope.

Section EquivExtSlice.
  Variable cfg : tcfg.
  Variable ncap : Z -> option Z.

  Local Notation P := (prim cfg ncap).
  Local Notation NOF := (fun _ : string => @None fn_ast).
  Local Notation AnsM := (outcome mfail val * state)%type.
  Local Notation xstmts := (@exec_stmts mfail state cfg NOF P).
  Local Notation xstmt := (@exec_stmt mfail state cfg NOF P).
  Local Notation xblock := (@exec_block mfail state cfg NOF P).
  Local Notation xexpr := (@eval_expr mfail state cfg NOF P).

  Lemma exec_stmts_cons F s ss en w kr k :
    xstmts (S F) (s :: ss) en w kr k = xstmt F s en w kr (fun en w => xstmts F ss en w kr k).
  Proof. reflexivity. Qed.
  Lemma exec_block_S F ss tail en w kr k :
    xblock (S F) (Blk ss tail) en w kr k =
    xstmts F ss en w kr (fun en' w =>
      match tail with
      | Some e => xexpr F e en' w kr (fun v w => k v (restore en en') w)
      | None => k VUnit (restore en en') w
      end).
  Proof. reflexivity. Qed.
  Lemma exec_sexpr_block F b en w kr k :
    xstmt (S F) (SExpr (EBlock b)) en w kr k = xblock F b en w kr (fun _ en w => k en w).
  Proof. reflexivity. Qed.
  Lemma exec_while F c b en w kr k :
    xstmt (S F) (SWhile c b) en w kr k =
    xexpr F c en w kr (fun vc w =>
      match vc with
      | VBool true => xblock F b en w kr (fun _ en w => xstmt F (SWhile c b) en w kr k)
      | VBool false => k en w
      | _ => (Stuck "while on non-boolean", w)
      end).
  Proof. reflexivity. Qed.

  Definition slice_val (es : list elem) : val := VCtor "Slice" (map VInt es).

  (* the loop statement of the regenerated body *)
  Definition WHS : stmt :=
    match fn_body lib__MiniVec__extend_from_slice_ast with
    | Blk [_; SExpr (EBlock (Blk [_; _; w] _))] _ => w
    | _ => SForeign "no loop"
    end.
  Definition ENVS (v : nat) (sl0 : val) (vs : list val) (go : bool) : env :=
    [("__go", VBool go); ("__it", VCtor "Slice" vs); ("elems", sl0); ("self", VObj v)].

  Definition after_loopS (K : env -> state -> AnsM) (v : nat) (sl0 : val) (r : res unit * state) : AnsM :=
    match r with
    | (Val _, s') => K (ENVS v sl0 [] false) s'
    | (Panicking, s') => (Panic, s')
    | (UB u, s') => (Fail (FUB u), s')
    | (AllocAbort x y, s') => (Fail (FAllocAbort x y), s')
    | (Abort, s') => (Fail FAbort, s')
    | (OutOfFuel, s') => (Fail FNoFuel, s')
    end.

  Ltac evs := cbv -[Z.add Z.sub Z.mul Z.div Z.modulo Z.eqb Z.ltb Z.leb Z.max Z.min Z.land Z.to_nat Z.of_nat W64 ISIZE_MAX
                  release esz ealign needs_drop is_pow2 layout_ok
                  is_default len capacity alignment vec_handle hdr_block reserve
                  clone_elem push push_clones with_capacity_body
                  get_block put_block set_handle
                  nth_error heap vecs].
  (* for the one statement that takes the length of the slice *)
  Ltac evl := cbv -[Z.add Z.sub Z.mul Z.div Z.modulo Z.eqb Z.ltb Z.leb Z.max Z.min Z.land Z.to_nat Z.of_nat W64 ISIZE_MAX
                  release esz ealign needs_drop is_pow2 layout_ok
                  is_default len capacity alignment vec_handle hdr_block reserve
                  clone_elem push push_clones with_capacity_body List.length
                  get_block put_block set_handle
                  nth_error heap vecs].

  Ltac known :=
    repeat match goal with
           | H : ?x = (_, _) |- context [?x] => rewrite H; red1
           end.

  Lemma loop_equivS v sl0 kr K : forall es vs F s,
    vs = map VInt es ->
    (List.length es <= F)%nat ->
    xstmt (S (40 + F)) WHS (ENVS v sl0 vs true) s kr K = after_loopS K v sl0 (push_clones cfg ncap v es s).
  Proof.
    induction es as [|e es IH]; intros vs F s Evs HF; subst vs; cbn [map].
    - (* the slice is exhausted: `next` gives None, the flag goes down, the loop ends *)
      cbv [WHS lib__MiniVec__extend_from_slice_ast fn_body]. rewrite exec_while.
      match goal with |- context [xstmt (40 + F) ?w] => change w with WHS end.
      remember (xstmt (40 + F) WHS) as REC eqn:EREC.
      cbn [push_clones]. cbv [ENVS after_loopS ret].
      evs. subst REC.
      change (40 + F)%nat with (S (39 + F)).
      cbv [WHS lib__MiniVec__extend_from_slice_ast fn_body]. rewrite exec_while.
      remember (xstmt (39 + F)) as REC eqn:EREC.
      evs. reflexivity.
    - destruct F as [|F]; [simpl in HF; lia|].
      remember (map VInt es) as vs' eqn:Evs.
      cbv [WHS lib__MiniVec__extend_from_slice_ast fn_body]. rewrite exec_while.
      match goal with |- context [xstmt (40 + S F) ?w] => change w with WHS end.
      remember (xstmt (40 + S F) WHS) as REC eqn:EREC.
      cbn [push_clones]. cbv [ENVS after_loopS bind ret] in *.
      evs. red1.
      repeat first
        [ reflexivity
        | match goal with
          | |- REC _ ?s1 _ _ = _ =>
              subst REC; change (40 + S F)%nat with (S (40 + F)); apply (IH vs' F s1 eq_refl); simpl in HF; lia
          end
        | step; known ].
  Qed.

  (* ---- the whole body ---- *)
  Definition run_ext (fuel : nat) (v : nat) (es : list elem) (s : state) : AnsM :=
    @eval_fn mfail state cfg NOF P fuel lib__MiniVec__extend_from_slice_ast [VObj v; slice_val es] s.

  Ltac next_stmt K EK :=
    rewrite exec_stmts_cons;
    match goal with |- context [@exec_stmt _ _ _ _ _ _ _ _ _ _ ?k] => remember k as K eqn:EK end.

  Theorem extend_from_slice_equiv v es s F :
    (List.length es <= F)%nat ->
    run_ext (FUEL + F) v es s = lift_m (extend_from_slice cfg ncap v es) vunit s.
  Proof.
    intros HF.
    unfold run_ext, eval_fn, slice_val.
    assert (Hlen : List.length (map VInt es) = @List.length Z es) by apply map_length.
    remember (map VInt es) as vs eqn:Evs.
    cbv [lib__MiniVec__extend_from_slice_ast fn_body fn_params FUEL combine rev app].
    change (120 + F)%nat with (S (119 + F)). rewrite exec_block_S.
    unfold lift_m. cbv [extend_from_slice bind ret].
    change (119 + F)%nat with (S (118 + F)).
    next_stmt K1 EK1. evl. red1. rewrite Hlen.
    destruct (reserve cfg ncap v (Z.of_nat (@List.length Z es)) s) as [[u| | | | |] s1] eqn:Er; try reflexivity.
    subst K1. change (118 + F)%nat with (S (117 + F)).
    rewrite exec_stmts_cons. change (117 + F)%nat with (S (116 + F)). rewrite exec_sexpr_block.
    change (116 + F)%nat with (S (115 + F)). rewrite exec_block_S.
    change (115 + F)%nat with (S (114 + F)).
    next_stmt K2 EK2. evs. subst K2. change (114 + F)%nat with (S (113 + F)).
    next_stmt K3 EK3. evs. subst K3. change (113 + F)%nat with (S (112 + F)).
    rewrite exec_stmts_cons.
    match goal with |- context [xstmt (112 + F) ?w] => change w with WHS end.
    change [("__go", VBool true); ("__it", VCtor "Slice" vs); ("elems", VCtor "Slice" vs); ("self", VObj v)]
      with (ENVS v (VCtor "Slice" vs) vs true).
    change (112 + F)%nat with (S (40 + (71 + F))).
    rewrite (loop_equivS v (VCtor "Slice" vs) _ _ es vs (71 + F)%nat s1 Evs) by (unfold elem in *; lia).
    destruct (push_clones cfg ncap v es s1) as [[u'| | | | |] s2]; cbv [after_loopS]; try reflexivity.
  Qed.

  (* ================= impl From<&[T]> for MiniVec<T> (src/impl/from.rs) =================
     `let mut v = MiniVec::with_capacity(s.len()); for x in s { v.push(x.clone()) }; v` as written: a
     new object of the world with room for the slice, the same loop, the object returned.
     Machine.from_slice is this body with the name of the new vector given and Rust's unwinding glue
     (`building`: the local `v` is dropped when a clone or a push unwinds). *)
  Definition from_slice_body (src : list elem) : M nat :=
    w <- with_capacity_body cfg (Z.of_nat (List.length src)) ;; push_clones cfg ncap w src ;;; ret w.

  Definition WHFS : stmt :=
    match fn_body from__MiniVec__from_ast with
    | Blk [_; SExpr (EBlock (Blk [_; _; w] _))] _ => w
    | _ => SForeign "no loop"
    end.
  Definition ENVFS (w : nat) (sl0 : val) (vs : list val) (go : bool) : env :=
    [("__go", VBool go); ("__it", VCtor "Slice" vs); ("v", VObj w); ("s", sl0)].

  Definition after_loopFS (K : env -> state -> AnsM) (w : nat) (sl0 : val) (r : res unit * state) : AnsM :=
    match r with
    | (Val _, s') => K (ENVFS w sl0 [] false) s'
    | (Panicking, s') => (Panic, s')
    | (UB u, s') => (Fail (FUB u), s')
    | (AllocAbort x y, s') => (Fail (FAllocAbort x y), s')
    | (Abort, s') => (Fail FAbort, s')
    | (OutOfFuel, s') => (Fail FNoFuel, s')
    end.

  Lemma loop_equivFS w sl0 kr K : forall es vs F s,
    vs = map VInt es ->
    (List.length es <= F)%nat ->
    xstmt (S (40 + F)) WHFS (ENVFS w sl0 vs true) s kr K = after_loopFS K w sl0 (push_clones cfg ncap w es s).
  Proof.
    induction es as [|e es IH]; intros vs F s Evs HF; subst vs; cbn [map].
    - cbv [WHFS from__MiniVec__from_ast fn_body]. rewrite exec_while.
      match goal with |- context [xstmt (40 + F) ?x] => change x with WHFS end.
      remember (xstmt (40 + F) WHFS) as REC eqn:EREC.
      cbn [push_clones]. cbv [ENVFS after_loopFS ret].
      evs. subst REC.
      change (40 + F)%nat with (S (39 + F)).
      cbv [WHFS from__MiniVec__from_ast fn_body]. rewrite exec_while.
      remember (xstmt (39 + F)) as REC eqn:EREC.
      evs. reflexivity.
    - destruct F as [|F]; [simpl in HF; lia|].
      remember (map VInt es) as vs' eqn:Evs.
      cbv [WHFS from__MiniVec__from_ast fn_body]. rewrite exec_while.
      match goal with |- context [xstmt (40 + S F) ?x] => change x with WHFS end.
      remember (xstmt (40 + S F) WHFS) as REC eqn:EREC.
      cbn [push_clones]. cbv [ENVFS after_loopFS bind ret] in *.
      evs. red1.
      repeat first
        [ reflexivity
        | match goal with
          | |- REC _ ?s1 _ _ = _ =>
              subst REC; change (40 + S F)%nat with (S (40 + F)); apply (IH vs' F s1 eq_refl); simpl in HF; lia
          end
        | step; known ].
  Qed.

  Definition run_from_slice (fuel : nat) (es : list elem) (s : state) : AnsM :=
    @eval_fn mfail state cfg NOF P fuel from__MiniVec__from_ast [slice_val es] s.

  Theorem from_slice_equiv es s F :
    (List.length es <= F)%nat ->
    run_from_slice (FUEL + F) es s = lift_m (from_slice_body es) VObj s.
  Proof.
    intros HF.
    unfold run_from_slice, eval_fn, slice_val.
    assert (Hlen : List.length (map VInt es) = @List.length Z es) by apply map_length.
    remember (map VInt es) as vs eqn:Evs.
    cbv [from__MiniVec__from_ast fn_body fn_params FUEL combine rev app].
    change (120 + F)%nat with (S (119 + F)). rewrite exec_block_S.
    unfold lift_m, from_slice_body. cbv [bind ret].
    remember (push_clones cfg ncap) as PC eqn:EPC.
    change (119 + F)%nat with (S (118 + F)).
    next_stmt K1 EK1. evl. red1. rewrite Hlen.
    destruct (with_capacity_body cfg (Z.of_nat (@List.length Z es)) s) as [[w| | | | |] s1] eqn:Er; try reflexivity.
    subst K1. change (118 + F)%nat with (S (117 + F)).
    rewrite exec_stmts_cons. change (117 + F)%nat with (S (116 + F)). rewrite exec_sexpr_block.
    change (116 + F)%nat with (S (115 + F)). rewrite exec_block_S.
    change (115 + F)%nat with (S (114 + F)).
    next_stmt K2 EK2. evs. subst K2. change (114 + F)%nat with (S (113 + F)).
    next_stmt K3 EK3. evs. subst K3. change (113 + F)%nat with (S (112 + F)).
    rewrite exec_stmts_cons.
    match goal with |- context [xstmt (112 + F) ?x] => change x with WHFS end.
    change [("__go", VBool true); ("__it", VCtor "Slice" vs); ("v", VObj w); ("s", VCtor "Slice" vs)]
      with (ENVFS w (VCtor "Slice" vs) vs true).
    change (112 + F)%nat with (S (40 + (71 + F))).
    rewrite (loop_equivFS w (VCtor "Slice" vs) _ _ es vs (71 + F)%nat s1 Evs) by (unfold elem in *; lia).
    subst PC.
    destruct (push_clones cfg ncap w es s1) as [[u'| | | | |] s2]; cbv [after_loopFS]; try reflexivity.
  Qed.
End EquivExtSlice.
