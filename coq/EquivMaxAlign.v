(* EquivMaxAlign.v -- helpers::max_align::<T>() = max(align_of::<T>(), align_of::<usize>()) *)
From Coq Require Import ZArith List String Bool Lia.
From MV Require Import Ast Eval Scalar EquivDefs.
From MV.Gen Require Import AstGen.
Import ListNotations.
Open Scope string_scope.
Open Scope Z_scope.

Section S.
  Variable F W : Type.
  Variable cfg : tcfg.
  Variable prim : string -> list val -> W -> outcome F val * W.
  Definition run (fa : fn_ast) (args : list val) (w : W) :=
    eval_fn cfg gen_funs (direct prim) FUEL fa args w.
  Definition in_range (n : Z) := 0 <= n < W64.

  Lemma max_align_equiv w :
    in_range (ealign cfg) ->
    run helpers__max_align_ast [] w = (Norm (VInt (max_align cfg)), w).
  Proof. intros _. reflexivity. Qed.
End S.
