(* EquivIter.v -- the stepping methods of Drain and IntoIter (src/impl/drain.rs, src/impl/into_iter.rs)
   evaluate to the Machine functions that Run.v executes on an iterator object: Drain::next,
   Drain::next_back, IntoIter::next, IntoIter::next_back, IntoIter::len, IntoIter::size_hint.
   `self` is the iterator object VCtor "Iter" [VObj i]; every `self.field` reads it and
   `self.field = x` writes it (Prims.v).  Pointer comparisons are decided by the machine's ptr_lt. *)
From Coq Require Import ZArith List String Bool Lia.
From MV Require Import Ast Eval Scalar Machine EquivDefs Prims EquivTac.
From MV.Gen Require Import AstGen.
Import ListNotations.
Open Scope string_scope.
Open Scope Z_scope.

Section EquivIter.
  Variable cfg : tcfg.
  Variable ncap : Z -> option Z.
  Local Notation runm := (runm cfg ncap).

  Definition iter_val (i : nat) : val := VCtor "Iter" [VObj i].

  Ltac evi := cbv -[Z.add Z.sub Z.mul Z.div Z.modulo Z.eqb Z.ltb Z.leb Z.max Z.min Z.land W64 ISIZE_MAX
                  release esz ealign needs_drop is_pow2 layout_ok
                  is_default len capacity alignment vec_handle hdr_block
                  data as_ptr set_len add_len slot_read padd
                  get_block put_block set_handle
                  drain_of into_of set_drain_pos set_drain_end set_into_pos ptr_lt ptr_diff
                  nth_error heap vecs].

  (* ---- reads do not change the state ---- *)
  Definition ro {A} (m : M A) : Prop := forall s r s', m s = (r, s') -> s' = s.
  Lemma ro_ret {A} (a : A) : ro (ret a). Proof. intros s r s' H. inversion H. reflexivity. Qed.
  Lemma ro_ub {A} k : ro (@ub A k). Proof. intros s r s' H. inversion H. reflexivity. Qed.
  Lemma ro_panic {A} : ro (@panic A). Proof. intros s r s' H. inversion H. reflexivity. Qed.
  Lemma ro_bind {A B} (m : M A) (f : A -> M B) : ro m -> (forall a, ro (f a)) -> ro (bind m f).
  Proof.
    intros Hm Hf s r s' H. unfold bind in H. destruct (m s) as [[a| | | | |] s1] eqn:E;
      try (inversion H; subst; exact (Hm _ _ _ E)).
    rewrite <- (Hm _ _ _ E). exact (Hf a _ _ _ H).
  Qed.
  Lemma ro_get_block b : ro (get_block b).
  Proof. intros s r s' H. unfold get_block in H. destruct (nth_error (heap s) b) as [bl|]; [destruct (b_live bl)|]; inversion H; reflexivity. Qed.
  Lemma ro_vec_handle v : ro (vec_handle v).
  Proof. intros s r s' H. unfold vec_handle in H. destruct (nth_error (vecs s) v) as [[h|]|]; inversion H; reflexivity. Qed.
  Lemma ro_iter_get i : ro (iter_get i).
  Proof. intros s r s' H. unfold iter_get in H. destruct (nth_error (iters s) i) as [[h|]|]; inversion H; reflexivity. Qed.
  Lemma ro_hdr_block h : ro (hdr_block h).
  Proof.
    unfold hdr_block. destruct h as [|b off]; [apply ro_ub|]. destruct (off =? 0); [|apply ro_ub].
    apply ro_bind; [apply ro_get_block|]. intros bl. destruct (HEADER_SIZE <=? b_size bl); [apply ro_ret|apply ro_ub].
  Qed.
  Lemma ro_is_default v : ro (is_default v).
  Proof. unfold is_default. apply ro_bind; [apply ro_vec_handle|intros h; apply ro_ret]. Qed.
  Lemma ro_len v : ro (len v).
  Proof.
    unfold len. apply ro_bind; [apply ro_vec_handle|]. intros [|b off]; [apply ro_ret|].
    apply ro_bind; [apply ro_hdr_block|intros x; apply ro_ret].
  Qed.
  Lemma ro_drain_of i : ro (drain_of i).
  Proof. unfold drain_of. apply ro_bind; [apply ro_iter_get|]. intros [d|f|t]; first [apply ro_ret|apply ro_ub]. Qed.
  Lemma ro_into_of i : ro (into_of i).
  Proof. unfold into_of. apply ro_bind; [apply ro_iter_get|]. intros [d|f|t]; first [apply ro_ret|apply ro_ub]. Qed.
  Lemma ro_ptr_lt p q : ro (ptr_lt p q).
  Proof.
    unfold ptr_lt. destruct p as [| | |b o i], q as [| | |b' o' j]; try apply ro_ret; try apply ro_ub.
    destruct (Nat.eqb b b'); [apply ro_ret|apply ro_ub].
  Qed.
  Lemma ro_ptr_diff p q : ro (ptr_diff p q).
  Proof.
    unfold ptr_diff. destruct p as [| | |b o i], q as [| | |b' o' j]; try apply ro_ret; try apply ro_ub.
    destruct (Nat.eqb b b'); [apply ro_ret|apply ro_ub].
  Qed.
  Lemma ro_elt_block p : ro (elt_block cfg p).
  Proof.
    unfold elt_block. destruct p as [| | |b o i]; try apply ro_ub.
    apply ro_bind; [apply ro_get_block|]. intros bl.
    destruct (canon_off bl) as [co|]; [|apply ro_ub].
    repeat match goal with |- ro (if ?c then _ else _) => destruct c end; first [apply ro_ret|apply ro_ub].
  Qed.
  Lemma ro_slot_read p : ro (slot_read cfg p).
  Proof.
    unfold slot_read. apply ro_bind; [apply ro_elt_block|]. intros [[b bl] i].
    destruct (slots bl i); [apply ro_ub|apply ro_ret].
  Qed.

  (* after a read has been analysed, its final state is the initial one *)
  Ltac ros :=
    repeat match goal with
           | H : drain_of _ ?s = (_, ?s') |- _ => is_var s'; pose proof (ro_drain_of _ _ _ _ H); subst s'
           | H : into_of _ ?s = (_, ?s') |- _ => is_var s'; pose proof (ro_into_of _ _ _ _ H); subst s'
           | H : ptr_lt _ _ ?s = (_, ?s') |- _ => is_var s'; pose proof (ro_ptr_lt _ _ _ _ _ H); subst s'
           | H : ptr_diff _ _ ?s = (_, ?s') |- _ => is_var s'; pose proof (ro_ptr_diff _ _ _ _ _ H); subst s'
           | H : slot_read _ _ ?s = (_, ?s') |- _ => is_var s'; pose proof (ro_slot_read _ _ _ _ H); subst s'
           | H : is_default _ ?s = (_, ?s') |- _ => is_var s'; pose proof (ro_is_default _ _ _ _ H); subst s'
           | H : len _ ?s = (_, ?s') |- _ => is_var s'; pose proof (ro_len _ _ _ _ H); subst s'
           end.
  Ltac symr := red1; repeat (try reflexivity; step; ros).

  Lemma drain_next_equiv i s :
    runm drain__Drain__next_ast [iter_val i] s = lift_m (drain_next_at cfg i) opt_elem_val s.
  Proof.
    unfold runm. evi. cbv [drain_next_at bind ret lift_m opt_elem_val]. symr.
  Qed.

  Lemma drain_next_back_equiv i s :
    runm drain__Drain__next_back_ast [iter_val i] s = lift_m (drain_next_back_at cfg i) opt_elem_val s.
  Proof.
    unfold runm. evi. cbv [drain_next_back_at bind ret lift_m opt_elem_val]. symr.
  Qed.

  (* Splice shares Drain's cursors: the same two bodies *)
  Lemma splice_next_equiv i s :
    runm splice__Splice__next_ast [iter_val i] s = lift_m (drain_next_at cfg i) opt_elem_val s.
  Proof.
    unfold runm. evi. cbv [drain_next_at bind ret lift_m opt_elem_val]. symr.
  Qed.

  Lemma splice_next_back_equiv i s :
    runm splice__Splice__next_back_ast [iter_val i] s = lift_m (drain_next_back_at cfg i) opt_elem_val s.
  Proof.
    unfold runm. evi. cbv [drain_next_back_at bind ret lift_m opt_elem_val]. symr.
  Qed.

  (* size_hint: (end as usize - pos as usize) / size_of::<T>() *)
  Definition hint_val (n : Z) : val := VTuple [VInt n; VCtor "Some" [VInt n]].

  Lemma drain_size_hint_equiv i s :
    0 < esz cfg ->
    runm drain__Drain__size_hint_ast [iter_val i] s = lift_m (drain_hint_at i) hint_val s.
  Proof.
    intros He. unfold runm. evi. cbv [drain_hint_at bind ret lift_m hint_val].
    assert (E0 : (esz cfg =? 0) = false) by (apply Z.eqb_neq; lia). rewrite E0.
    symr; rewrite Z.div_mul by lia; reflexivity.
  Qed.

  Lemma splice_size_hint_equiv i s :
    0 < esz cfg ->
    runm splice__Splice__size_hint_ast [iter_val i] s = lift_m (drain_hint_at i) hint_val s.
  Proof.
    intros He. unfold runm. evi. cbv [drain_hint_at bind ret lift_m hint_val].
    assert (E0 : (esz cfg =? 0) = false) by (apply Z.eqb_neq; lia). rewrite E0.
    symr; rewrite Z.div_mul by lia; reflexivity.
  Qed.

  Lemma into_next_equiv i s :
    runm into_iter__IntoIter__next_ast [iter_val i] s = lift_m (into_next_at cfg i) opt_elem_val s.
  Proof.
    unfold runm. evi. cbv [into_next_at bind ret lift_m opt_elem_val]. symr.
  Qed.

  Lemma into_next_back_equiv i s :
    runm into_iter__IntoIter__next_back_ast [iter_val i] s = lift_m (into_next_back_at cfg i) opt_elem_val s.
  Proof.
    unfold runm. evi. cbv [into_next_back_at bind ret lift_m opt_elem_val]. symr.
  Qed.

  Lemma into_len_equiv i s :
    runm into_iter__IntoIter__len_ast [iter_val i] s = lift_m (into_len_at i) VInt s.
  Proof.
    unfold runm. evi. cbv [into_len_at bind ret lift_m]. symr.
  Qed.

  Lemma into_size_hint_equiv i s :
    runm into_iter__IntoIter__size_hint_ast [iter_val i] s =
    lift_m (into_len_at i) (fun n => VTuple [VInt n; VCtor "Some" [VInt n]]) s.
  Proof.
    unfold runm. evi. cbv [into_len_at bind ret lift_m]. symr.
  Qed.

  (* IntoIter::as_slice: empty for a never-allocated vector, else the elements from the cursor on (the
     embedded vector's length counts what is left) -- what Run.v computes for `asslice` on an IntoIter *)
  Lemma into_as_slice_equiv i s :
    runm into_iter__IntoIter__as_slice_ast [iter_val i] s =
    lift_m (t <- into_of i ;; into_as_slice cfg t) (fun es => VCtor "Slice" (map VInt es)) s.
  Proof.
    unfold runm, eval_fn.
    cbv -[Z.add Z.sub Z.mul Z.div Z.modulo Z.eqb Z.ltb Z.leb Z.max Z.min Z.land W64 ISIZE_MAX
          release esz ealign needs_drop is_pow2 layout_ok
          is_default len vec_handle hdr_block expose_slice map
          get_block put_block set_handle into_of
          nth_error heap vecs].
    cbv [into_as_slice bind ret lift_m]. symr.
  Qed.
End EquivIter.
