(* Scalar.v -- readable hand-written versions of minivec's scalar functions
   (src/impl/helpers.rs and the arithmetic of the capacity family), over Z with
   the overflow behaviour of both build profiles made explicit.  Equiv.v proves,
   on every run, that the ASTs regenerated from /repo evaluate to exactly these. *)
From Coq Require Import ZArith List String Bool Lia.
From MV Require Import Ast Eval.
Import ListNotations.
Open Scope Z_scope.

Definition bindo {A B} (o : option A) (f : A -> option B) : option B :=
  match o with Some a => f a | None => None end.
Notation "x <- a ;; b" := (bindo a (fun x => b)) (at level 61, a at next level, right associativity).

(* None = the operation panics.  Since the repair of D11 every size computation of the crate
   uses checked arithmetic, so these are the same in both build profiles; the plain operators
   (panic in debug, wrap in release) remain available in Eval.v for code that uses them. *)
Definition add_u (a b : Z) : option Z :=
  let r := a + b in if r <? W64 then Some r else None.
Definition sub_u (a b : Z) : option Z :=
  let r := a - b in if 0 <=? r then Some r else None.
Definition mul_u (a b : Z) : option Z :=
  let r := a * b in if r <? W64 then Some r else None.

(* helpers.rs: next_aligned(n, alignment) *)
Definition next_aligned (n a : Z) : option Z :=
  if a =? 0 then None
  else let r := n mod a in
       if r =? 0 then Some n else add_u n (a - r).

(* helpers.rs: max_align::<T>() *)
Definition max_align (c : tcfg) : Z := Z.max (ealign c) HEADER_ALIGN.

(* helpers.rs: the num_bytes computed by make_layout::<T>(capacity, alignment) *)
Definition layout_size (c : tcfg) (cap a : Z) : option Z :=
  h <- next_aligned HEADER_SIZE a ;;
  if cap =? 0 then Some h
  else m <- mul_u cap (esz c) ;;
       d <- next_aligned m a ;;
       add_u h d.

(* helpers.rs: make_layout::<T>; None = the unwrap (or the arithmetic) panics *)
Definition make_layout (c : tcfg) (cap a : Z) : option (Z * Z) :=
  n <- layout_size c cap a ;;
  if layout_ok n a then Some (n, a) else None.

(* serde.rs: map_size_hint *)
Definition map_size_hint (h : option Z) : Z :=
  match h with Some n => Z.min n 1024 | None => 0 end.

(* distance from the block start to element 0 for a stored alignment a *)
Definition data_offset (a : Z) : option Z := next_aligned HEADER_SIZE a.
