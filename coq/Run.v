(* Run.v -- histories: the operation alphabet (one constructor per public entry point of the
   crate as exercised by the harness), the step function with the same applicability rules as
   the Rust harness, and the observation made after every operation.  Definitions only. *)
From Coq Require Import ZArith List String Bool Lia.
From MV Require Import Ast Eval Scalar Machine.
Import ListNotations.
Open Scope Z_scope.

Definition script := list Z.        (* answers of a callback, as character codes *)

Inductive op :=
(* constructors and conversions *)
| ONew (v : nat) | ODefault (v : nat) | OMac0 (v : nat)
| OWithCapacity (v : nat) (c : Z)
| OWithAlignment (v : nat) (c a : Z)
| OFromSlice (v : nat) (n : Z) | OFromMutSlice (v : nat) (n : Z) | OFromStr (v : nat) (n : Z)
| OFromIter (v : nat) (sc : script)
| OMacroRepeat (v : nat) (n : Z) | OMacroList (v : nat)
| OClone (v w : nat) | ODrainVec (v w : nat) | OSplitOff (v w : nat) (at_ : Z)
| ORawRoundTrip (v : nat) (three : bool) | OLeak (v : nat) | ODropVec (v : nat)
(* mutators *)
| OPush (v : nat) (pay : option Z) | OPop (v : nat)
| OInsert (v : nat) (i : Z) | ORemove (v : nat) (i : Z) | OSwapRemove (v : nat) (i : Z)
| OTruncate (v : nat) (n : Z) | OClear (v : nat)
| OResize (v : nat) (n : Z) | OResizeWith (v : nat) (n : Z) (sc : script)
| OExtendFromSlice (v : nat) (n : Z) | OExtend (v : nat) (sc : script)
| OExtendFromWithin (v : nat) (bs be : bound)
| OAppend (v w : nat)
| ODedup (v : nat) | ODedupBy (v : nat) (sc : script) | ODedupByKey (v : nat)
| ORetain (v : nat) (sc : script) | ORemoveItem (v : nat) (pay : Z)
(* capacity family *)
| OReserve (v : nat) (n : Z) | OReserveExact (v : nat) (n : Z)
| OShrinkToFit (v : nat) | OShrinkTo (v : nat) (n : Z)
(* views *)
| OSpare (v : nat) | OSplitSpare (v : nat) | OIndex (v : nat) (i : Z) | OSlice (v : nat) (bs be : bound)
| OCmp (v w : nat)
(* iterators *)
| ODrain (v i : nat) (bs be : bound) | OSplice (v i : nat) (bs be : bound) (sc : script)
| ODrainFilter (v i : nat) (sc : script) | OIntoIter (v i : nat)
| ONext (i : nat) | ONextBack (i : nat) | ONth (i : nat) (k : Z) | ONthBack (i : nat) (k : Z) | OCount (i : nat) | OLast (i : nat) | OHint (i : nat) | OAsSlice (i : nat)
| OCloneIter (i j : nat) | ODropIter (i : nat) | OForgetIter (i : nat)
| OUnknown.

Inductive retv :=
| RNone
| ROpt (o : option elem)
| RElem (e : elem)
| RList (l : list elem)
| RCode (c : Z)                      (* with_alignment: 0 ok, 1 e1, 2 e2 *)
| RNum (n : Z)
| RPair (a b : Z)
| RHint (lo : Z) (hi : option Z)
| RCmp (eq : bool) (pc : Z)          (* 0 lt, 1 eq, 2 gt, 3 none *)
| REnd (ledger : list status) (blocks : list (Z * Z)).

Inductive outtag := TOk | TPanic | TSkip | TUnknown | TUB (k : ubkind) | TAbort | TAllocAbort (s a : Z) | TNoFuel.

Inductive place := PlNull | PlAt (off size align : Z).

Record vobs := { vo_id : nat; vo_len : Z; vo_cap : Z; vo_place : place; vo_ids : list elem }.

Record obs := {
  o_out : outtag; o_ret : retv; o_vecs : list vobs; o_events : list event (* in order *) }.

(* hidden vector names: the vector embedded in IntoIter i, the temporary of Splice's guard *)
Definition HIDDEN : nat := 100.
Definition into_slot (i : nat) : nat := (HIDDEN + i)%nat.
Definition TMP_SLOT : nat := 300.

Section Run.
  Variable cfg : tcfg.
  Variable next_capacity : Z -> option Z.

  Notation len := Machine.len.
  Notation capacity := Machine.capacity.

  Definition vec_exists (s : state) (v : nat) : bool :=
    match nth_error (vecs s) v with Some (Some _) => true | _ => false end.
  Definition iter_exists (s : state) (i : nat) : bool :=
    match nth_error (iters s) i with Some (Some _) => true | _ => false end.
  Definition borrows (v : nat) (it : option iter) : bool :=
    match it with
    | Some (IDrain d) => Nat.eqb (d_vec d) v
    | Some (IFilter f) => Nat.eqb (f_vec f) v
    | _ => false
    end.
  Definition borrowed (s : state) (v : nat) : bool := existsb (borrows v) (iters s).
  Definition has (s : state) (v : nat) : bool := vec_exists s v && negb (borrowed s v).
  Definition free_vec (s : state) (v : nat) : bool := negb (vec_exists s v).

  (* the harness creates n source elements (they stay with the harness: Out after the call) *)
  Fixpoint fresh_n (n : nat) : M (list elem) :=
    match n with
    | O => ret []
    | S n => s <- get ;; e <- fresh_elem (next_elem s) ;; es <- fresh_n n ;; ret (e :: es)
    end.
  Fixpoint hand_out_all (es : list elem) : M unit :=
    match es with [] => ret tt | e :: es => hand_out cfg e ;;; hand_out_all es end.

  Definition payloads (es : list elem) : M (list Z) :=
    s <- get ;; ret (map (payload s) es).

  (* slice comparison on payloads (partial order: NAN_PAYLOAD is unordered and unequal) *)
  Fixpoint slice_eq (a b : list Z) : bool :=
    match a, b with
    | [], [] => true
    | x :: a, y :: b => (x =? y) && negb (x =? NAN_PAYLOAD) && slice_eq a b
    | _, _ => false
    end.
  Fixpoint slice_pcmp (a b : list Z) : Z :=
    match a, b with
    | [], [] => 1
    | [], _ => 0
    | _, [] => 2
    | x :: a, y :: b =>
        if (x =? NAN_PAYLOAD) || (y =? NAN_PAYLOAD) then 3
        else if x <? y then 0 else if y <? x then 2 else slice_pcmp a b
    end.

  Definition SKIP : M (outtag * retv) := ret (TSkip, RNone).
  Definition done (m : M unit) : M (outtag * retv) := m ;;; ret (TOk, RNone).
  Definition with_ret (m : M retv) : M (outtag * retv) := r <- m ;; ret (TOk, r).

  (* hand a yielded / returned element to the harness *)
  Definition yield (o : option elem) : M retv :=
    match o with
    | Some e => hand_out cfg e ;;; ret (ROpt (Some e))
    | None => ret (ROpt None)
    end.

  (* one front step of iterator i, without handing the element out *)
  Definition iter_front (i : nat) : M (option elem) :=
    it <- iter_get i ;;
    match it with
    | IDrain d => drain_next_at cfg i
    | IInto t => into_next_at cfg i
    | IFilter f => filter_next_at cfg (filter_fuel f) i
    end.

  (* Iterator::nth, the provided method (none of the four iterators may override it observably):
     k elements are taken and dropped, the next one is returned *)
  Fixpoint iter_nth (k : nat) (i : nat) : M (option elem) :=
    match k with
    | O => iter_front i
    | S k => r <- iter_front i ;;
             match r with
             | Some e => drop_elem cfg e ;;; iter_nth k i
             | None => ret None
             end
    end.

  (* one back step (Drain / Splice / IntoIter) *)
  Definition iter_back (i : nat) : M (option elem) :=
    it <- iter_get i ;;
    match it with
    | IDrain d => drain_next_back_at cfg i
    | IInto t => into_next_back_at cfg i
    | IFilter f => ub WildCursor         (* not double-ended: guarded by the step rule *)
    end.
  Fixpoint iter_nth_back (k : nat) (i : nat) : M (option elem) :=
    match k with
    | O => iter_back i
    | S k => r <- iter_back i ;;
             match r with
             | Some e => drop_elem cfg e ;;; iter_nth_back k i
             | None => ret None
             end
    end.
  (* Iterator::count / Iterator::last, the provided methods: every element is taken and dropped (the
     last one is returned by `last`); fuel bounds the number of elements *)
  Fixpoint iter_count (fuel : nat) (i : nat) (n : Z) : M Z :=
    match fuel with
    | O => ret n
    | S fuel => r <- iter_front i ;;
                match r with
                | Some e => drop_elem cfg e ;;; iter_count fuel i (n + 1)
                | None => ret n
                end
    end.
  Fixpoint iter_last (fuel : nat) (i : nat) (acc : option elem) : M (option elem) :=
    match fuel with
    | O => ret acc
    | S fuel => (* Iterator::last is a fold: when next() unwinds, the element held so far is dropped *)
                r <- on_unwind (iter_front i) (match acc with Some a => drop_elem cfg a | None => ret tt end) ;;
                match r with
                | Some e => (match acc with Some a => drop_elem cfg a | None => ret tt end) ;;; iter_last fuel i (Some e)
                | None => ret acc
                end
    end.

  Definition step (o : op) : M (outtag * retv) :=
    s <- get ;;
    let H := has s in
    match o with
    | ONew v | ODefault v | OMac0 v =>
        if free_vec s v then done (new_vec cfg v) else SKIP
    | OWithCapacity v c =>
        if free_vec s v then done (with_capacity cfg v c) else SKIP
    | OWithAlignment v c a =>
        if free_vec s v then
          r <- with_alignment cfg v c a ;; ret (TOk, RCode r)
        else SKIP
    | OFromSlice v n | OFromMutSlice v n =>
        if free_vec s v then
          src <- fresh_n (Z.to_nat (Z.min n 4000)) ;;
          try_finally (done (from_slice cfg next_capacity v src)) (hand_out_all src)
        else SKIP
    | OFromStr v n =>
        if free_vec s v then
          src <- fresh_n (Z.to_nat (Z.min n 4000)) ;;
          done (from_str cfg v (map (fun e => e mod 128) src))
        else SKIP
    | OFromIter v sc =>
        if free_vec s v then done (_ <- from_iter cfg next_capacity v sc ;; ret tt) else SKIP
    | OMacroRepeat v n =>
        if free_vec s v then done (macro_repeat cfg v n) else SKIP
    | OMacroList v =>
        if free_vec s v then
          done (new_vec cfg v ;;; building cfg v (push_fresh cfg next_capacity 3 v))
        else SKIP
    | OClone v w =>
        if H v && free_vec s w then done (clone_vec cfg next_capacity v w) else SKIP
    | ODrainVec v w =>
        if H v && free_vec s w then done (drain_vec v w) else SKIP
    | OSplitOff v w at_ =>
        if H v && free_vec s w then done (split_off cfg v w at_) else SKIP
    | ORawRoundTrip v three =>
        if H v then
          d <- is_default v ;;
          if d then SKIP else
          r <- raw_roundtrip cfg v three ;; ret (TOk, RPair (fst r) (snd r))
        else SKIP
    | OLeak v =>
        if H v then with_ret (es <- leak cfg v ;; ret (RList es)) else SKIP
    | ODropVec v =>
        if H v then done (drop_vec cfg v) else SKIP
    | OPush v pay =>
        if H v then
          e <- fresh_elem (match pay with Some p => p | None => next_elem s end) ;;
          done (push cfg next_capacity v e)
        else SKIP
    | OPop v =>
        if H v then with_ret (r <- pop cfg v ;; ret (ROpt r)) else SKIP
    | OInsert v i =>
        if H v then e <- fresh_elem (next_elem s) ;; done (insert cfg next_capacity v i e) else SKIP
    | ORemove v i =>
        if H v then with_ret (e <- remove cfg v i ;; ret (RElem e)) else SKIP
    | OSwapRemove v i =>
        if H v then with_ret (e <- swap_remove cfg v i ;; ret (RElem e)) else SKIP
    | OTruncate v n => if H v then done (truncate cfg v n) else SKIP
    | OClear v => if H v then done (clear cfg v) else SKIP
    | OResize v n =>
        if H v then e <- fresh_elem (next_elem s) ;; done (resize cfg next_capacity v n e) else SKIP
    | OResizeWith v n sc =>
        if H v then done (resize_with cfg next_capacity v n sc) else SKIP
    | OExtendFromSlice v n =>
        if H v then
          src <- fresh_n (Z.to_nat (Z.min n 4000)) ;;
          try_finally (done (extend_from_slice cfg next_capacity v src)) (hand_out_all src)
        else SKIP
    | OExtend v sc =>
        if H v then done (_ <- extend cfg next_capacity v sc ;; ret tt) else SKIP
    | OExtendFromWithin v bs be =>
        if H v then done (extend_from_within cfg next_capacity v bs be) else SKIP
    | OAppend v w =>
        if H v && H w && negb (Nat.eqb v w) then done (append cfg next_capacity v w) else SKIP
    | ODedup v => if H v then done (dedup_by cfg v SameEq []) else SKIP
    | ODedupBy v sc => if H v then done (dedup_by cfg v SameScript sc) else SKIP
    | ODedupByKey v => if H v then done (dedup_by cfg v SameKey []) else SKIP
    | ORetain v sc => if H v then done (retain cfg v sc) else SKIP
    | ORemoveItem v p =>
        if H v then
          probe <- fresh_elem p ;;
          try_finally (with_ret (r <- remove_item cfg v probe ;; ret (ROpt r))) (hand_out cfg probe)
        else SKIP
    | OReserve v n => if H v then done (reserve cfg next_capacity v n) else SKIP
    | OReserveExact v n => if H v then done (reserve_exact cfg v n) else SKIP
    | OShrinkToFit v => if H v then done (shrink_to_fit cfg v) else SKIP
    | OShrinkTo v n => if H v then done (shrink_to cfg v n) else SKIP
    | OSpare v => if H v then with_ret (n <- spare_capacity cfg v ;; ret (RNum n)) else SKIP
    | OSplitSpare v => if H v then with_ret (r <- split_at_spare cfg v ;; ret (RPair (fst r) (snd r))) else SKIP
    | OIndex v i => if H v then with_ret (e <- index cfg v i ;; ret (RElem e)) else SKIP
    | OSlice v bs be => if H v then with_ret (es <- slice_range cfg v bs be ;; ret (RList es)) else SKIP
    | OCmp v w =>
        if H v && H w then
          a <- deref cfg v ;; b <- deref cfg w ;;
          pa <- payloads a ;; pb <- payloads b ;;
          ret (TOk, RCmp (slice_eq pa pb) (slice_pcmp pa pb))
        else SKIP
    | ODrain v i bs be =>
        if H v && negb (iter_exists s i) then
          done (d <- make_drain cfg v bs be None ;; iter_set i (Some (IDrain d)))
        else SKIP
    | OSplice v i bs be sc =>
        if H v && negb (iter_exists s i) then
          done (d <- make_drain cfg v bs be (Some sc) ;; iter_set i (Some (IDrain d)))
        else SKIP
    | ODrainFilter v i sc =>
        if H v && negb (iter_exists s i) then
          done (f <- make_filter v sc ;; iter_set i (Some (IFilter f)))
        else SKIP
    | OIntoIter v i =>
        if H v && negb (iter_exists s i) then
          done (h <- vec_handle v ;;
                set_handle (into_slot i) (Some h) ;;; set_handle v None ;;;
                it <- make_into cfg (into_slot i) ;; iter_set i (Some (IInto it)))
        else SKIP
    | ONext i =>
        if iter_exists s i then
          it <- iter_get i ;;
          match it with
          | IDrain d => r <- drain_next_at cfg i ;; with_ret (yield r)
          | IInto t => r <- into_next_at cfg i ;; with_ret (yield r)
          | IFilter f => r <- filter_next_at cfg (filter_fuel f) i ;; with_ret (yield r)
          end
        else SKIP
    | ONth i k =>
        if iter_exists s i && (0 <=? k) && (k <=? 64) then
          with_ret (r <- iter_nth (Z.to_nat k) i ;; yield r)
        else SKIP
    | ONthBack i k =>
        if iter_exists s i && (0 <=? k) && (k <=? 64) then
          it <- iter_get i ;;
          match it with
          | IFilter _ => SKIP
          | _ => with_ret (r <- iter_nth_back (Z.to_nat k) i ;; yield r)
          end
        else SKIP
    | OCount i =>
        if iter_exists s i then with_ret (n <- iter_count 1024 i 0 ;; ret (RNum n)) else SKIP
    | OLast i =>
        if iter_exists s i then with_ret (r <- iter_last 1024 i None ;; yield r) else SKIP
    | ONextBack i =>
        if iter_exists s i then
          it <- iter_get i ;;
          match it with
          | IDrain d => r <- drain_next_back_at cfg i ;; with_ret (yield r)
          | IInto t => r <- into_next_back_at cfg i ;; with_ret (yield r)
          | IFilter _ => SKIP
          end
        else SKIP
    | OHint i =>
        if iter_exists s i then
          it <- iter_get i ;;
          match it with
          | IDrain d => n <- drain_hint_at i ;; ret (TOk, RHint n (Some n))
          | IInto t => n <- into_len_at i ;; ret (TOk, RHint n (Some n))
          | IFilter f => ret (TOk, RHint 0 (Some (f_old f - f_pos f)))
          end
        else SKIP
    | OAsSlice i =>
        if iter_exists s i then
          it <- iter_get i ;;
          match it with
          | IInto t => with_ret (es <- into_as_slice cfg t ;; ret (RList es))
          | _ => SKIP
          end
        else SKIP
    | OCloneIter i j =>
        if iter_exists s i && negb (iter_exists s j) then
          it <- iter_get i ;;
          match it with
          | IInto t => done (c <- into_clone cfg next_capacity t (into_slot j) ;; iter_set j (Some (IInto c)))
          | _ => SKIP
          end
        else SKIP
    | ODropIter i =>
        if iter_exists s i then
          it <- iter_get i ;;
          iter_set i None ;;;
          match it with
          | IDrain d => done (drain_drop cfg next_capacity TMP_SLOT d)
          | IFilter f => done (filter_drop cfg f)
          | IInto t => done (into_drop cfg t)
          end
        else SKIP
    | OForgetIter i =>
        if iter_exists s i then
          it <- iter_get i ;;
          iter_set i None ;;;
          match it with
          | IInto t => done (set_handle (i_vec t) None)     (* the embedded vector is leaked *)
          | _ => done (ret tt)
          end
        else SKIP
    | OUnknown => ret (TUnknown, RNone)
    end.

  (* ------------------------------------------------------------ observation *)

  Definition observe_vec (v : nat) : M vobs :=
    l <- len v ;; c <- capacity v ;;
    h <- vec_handle v ;;
    match h with
    | Sentinel => ret {| vo_id := v; vo_len := l; vo_cap := c; vo_place := PlNull; vo_ids := [] |}
    | _ =>
        p <- data cfg v ;;
        match p with
        | PElt b off _ =>
            bl <- get_block b ;;
            es <- expose_slice cfg p l ;;
            ret {| vo_id := v; vo_len := l; vo_cap := c; vo_place := PlAt off (b_size bl) (b_align bl);
                   vo_ids := es |}
        | _ => ub WildCursor
        end
    end.

  Fixpoint observe_vecs (n : nat) (v : nat) : M (list vobs) :=
    match n with
    | O => ret []
    | S n =>
        s <- get ;;
        if has s v then x <- observe_vec v ;; xs <- observe_vecs n (S v) ;; ret (x :: xs)
        else observe_vecs n (S v)
    end.

  Definition take_events : M (list event) :=
    fun s => (Val (rev (events s)),
              {| heap := heap s; vecs := vecs s; iters := iters s; ledger := ledger s;
                 payload := payload s; next_elem := next_elem s;
                 drop_panics := drop_panics s; clone_panics := clone_panics s;
                 alloc_fail := alloc_fail s; alloc_limit := alloc_limit s; events := [] |}).

  Definition tag_of {A} (r : res A) : outtag :=
    match r with
    | Val _ => TOk | Panicking => TPanic | UB k => TUB k | AllocAbort s a => TAllocAbort s a
    | Abort => TAbort | OutOfFuel => TNoFuel
    end.

  Definition visible (s : state) : nat := Nat.min (List.length (vecs s)) HIDDEN.

  (* one operation at the boundary between operations: panics are caught (catch_unwind), the
     state of every unborrowed vector is observed.  Fatal outcomes end the history. *)
  Definition after_op (t : outtag) (r : retv) (s1 : state) : obs * state * bool :=
    match observe_vecs (visible s1) 0 s1 with
    | (Val vs, s2) =>
        match take_events s2 with
        | (Val ev, s3) => ({| o_out := t; o_ret := r; o_vecs := vs; o_events := ev |}, s3, true)
        | (_, s3) => ({| o_out := TUnknown; o_ret := RNone; o_vecs := []; o_events := [] |}, s3, false)
        end
    | (bad, s2) =>
        ({| o_out := tag_of bad; o_ret := r; o_vecs := []; o_events := rev (events s2) |}, s2, false)
    end.

  Definition run_op (o : op) (s : state) : obs * state * bool (* continue? *) :=
    match step o s with
    | (Val (t, r), s1) => after_op t r s1
    | (Panicking, s1) => after_op TPanic RNone s1
    | (bad, s1) =>
        ({| o_out := tag_of bad; o_ret := RNone; o_vecs := []; o_events := rev (events s1) |}, s1, false)
    end.

  (* end of a history: drop the iterators, then the vectors, each under catch_unwind *)
  Fixpoint finish_iters (n : nat) (i : nat) : M unit :=
    match n with
    | O => ret tt
    | S n =>
        s <- get ;;
        (if iter_exists s i then _ <- catch (x <- step (ODropIter i) ;; ret tt) ;; ret tt else ret tt) ;;;
        finish_iters n (S i)
    end.
  Fixpoint finish_vecs (n : nat) (v : nat) : M unit :=
    match n with
    | O => ret tt
    | S n =>
        s <- get ;;
        (if vec_exists s v then _ <- catch (drop_vec cfg v) ;; ret tt else ret tt) ;;;
        finish_vecs n (S v)
    end.

  Fixpoint ledger_list (n : nat) (f : elem -> status) (i : Z) : list status :=
    match n with O => [] | S n => f i :: ledger_list n f (i + 1) end.

  Definition live_blocks (h : list block) : list (Z * Z) :=
    map (fun b => (b_size b, b_align b)) (filter b_live h).

  Definition finish (s : state) : obs * state :=
    match (finish_iters (List.length (iters s)) 0 ;;; finish_vecs (visible s) 0) s with
    | (Val _, s1) =>
        let ev := rev (events s1) in
        ({| o_out := TOk;
            o_ret := REnd (if needs_drop cfg then ledger_list (Z.to_nat (next_elem s1)) (ledger s1) 0 else [])
                          (live_blocks (heap s1));
            o_vecs := []; o_events := ev |}, s1)
    | (bad, s1) => ({| o_out := tag_of bad; o_ret := RNone; o_vecs := []; o_events := rev (events s1) |}, s1)
    end.

  Definition init_state (dp cp : list elem) (af : option Z) (lim : Z) : state :=
    {| heap := []; vecs := []; iters := []; ledger := fun _ => Fresh; payload := fun _ => 0;
       next_elem := 0; drop_panics := dp; clone_panics := cp; alloc_fail := af; alloc_limit := lim;
       events := [] |}.
End Run.
