(* FactsDef.v -- record types of the structural facts that rs2v dumps (Gen/Facts.v). *)
From Coq Require Export List String Bool.
Export ListNotations.

Inductive field_class :=
| FNonNull (pointee : string)
| FPhantom (arg : string)
| FWord | FByte
| FRawPtr (pointee : string)
| FRef (pointee : string)
| FArray (elem len : string)
| FElem
| FOption (arg : string)
| FMiniVec
| FOther (ty : string).

Record struct_fact := {
  st_file : string; st_name : string; st_generics : list string; st_bounds : list string;
  st_repr : list string; st_fields : list (string * field_class) }.

Record unsafe_impl_fact := { ui_trait : string; ui_type : string; ui_bounds : list string }.

Inductive recv_kind := RNone | RShared | RMut | ROwned.

Record sig_fact := {
  s_file : string; s_owner : string; s_trait : string; s_name : string;
  s_pub : bool; s_unsafe : bool; s_recv : recv_kind;
  s_generics : list string; s_bounds : list string; s_args : list string; s_ret : string }.

Inductive deleg_shape := Opaque | Delegates (op : string) (operands : list string).

Record deleg_fact := {
  d_file : string; d_trait : string; d_self : string; d_fn : string; d_shape : deleg_shape }.
