(* SerdeSeq.v -- the deserialization visitor of src/serde.rs (`VecVisitor::visit_seq`) as a machine
   function.  The input is user code (a serde `SeqAccess`): in the world it is a script of answers --
   `next_element()` gives Ok(Some(fresh element)) / Ok(None) / Err -- and a claimed size hint.
     let mut values = MiniVec::with_capacity(map_size_hint(seq.size_hint()));
     while let Some(value) = seq.next_element()? { values.push(value) }
     Ok(values)
   EquivSerdeSeq.v ties the regenerated body to visit_body; Proofs/SerdeSeq.v proves that the result
   holds exactly the elements the input yields before its end, in order. *)
From Coq Require Import ZArith List Bool.
From MV Require Import Ast Eval Scalar Machine.
Import ListNotations.
Open Scope Z_scope.

Section SerdeSeq.
  Variable cfg : tcfg.
  Variable ncap : Z -> option Z.

  (* one call of next_element(): answer 'P' of the script is an element-level error *)
  Definition seq_next (sc : list answer) : M (option (option elem) * list answer) :=
    let '(x, sc') := pop_script sc A_N in
    if x =? A_P then ret (None, sc')
    else r <- iter_next sc ;; ret (Some (fst r), snd r).

  (* the loop: (true, rest) when the input ended, (false, rest) when it reported an error *)
  Fixpoint visit_loop (fuel : nat) (w : nat) (sc : list answer) : M (bool * list answer) :=
    match fuel with
    | O => ret (true, sc)
    | S fuel =>
        r <- seq_next sc ;;
        match fst r with
        | None => ret (false, snd r)
        | Some None => ret (true, snd r)
        | Some (Some e) => push cfg ncap w e ;;; visit_loop fuel w (snd r)
        end
    end.

  (* the body as written: Ok(values) or the input's error (the local `values` is then dropped by
     Rust's drop glue, which is not part of the body) *)
  Definition visit_body (h : option Z) (sc : list answer) : M (option nat) :=
    w <- with_capacity_body cfg (map_size_hint h) ;;
    r <- visit_loop (S (List.length sc)) w sc ;;
    ret (if fst r then Some w else None).
End SerdeSeq.
