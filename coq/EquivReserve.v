(* EquivReserve.v -- reserve's body, including its doubling `while` loop, evaluates to Machine.reserve
   for EVERY state, vector and argument and both profiles.  The loop is handled by induction: under the
   growth policy's doubling property 64 iterations always suffice, so neither the evaluator's fuel nor
   the machine's loop fuel can run out.  The prefix and the suffix of the body are evaluated statement
   by statement with the rest of the body behind an opaque continuation.  Assumption at the function
   boundary: the capacity word read at the start is not negative (`cap_ok`). *)
From Coq Require Import ZArith List String Bool Lia.
From MV Require Import Ast Eval Scalar Machine EquivDefs Prims EquivTac.
From MV.Gen Require Import AstGen.
From MV Require Import Model Policy.
From MV.Proofs Require Import Grow.
Import ListNotations.
Open Scope string_scope.
Open Scope Z_scope.

Section EquivReserve.
  Variable cfg : tcfg.
  Variable ncap : Z -> option Z.

  Local Notation runm := (runm cfg ncap).
  Local Notation P := (prim cfg ncap).
  Local Notation NOF := (fun _ : string => @None fn_ast).
  Local Notation xstmts := (@exec_stmts mfail state cfg NOF P).
  Local Notation xstmt := (@exec_stmt mfail state cfg NOF P).
  Local Notation xblock := (@exec_block mfail state cfg NOF P).
  Local Notation xexpr := (@eval_expr mfail state cfg NOF P).

  Lemma exec_stmts_cons F s ss en w kr k :
    xstmts (S F) (s :: ss) en w kr k =
    xstmt F s en w kr (fun en w => xstmts F ss en w kr k).
  Proof. reflexivity. Qed.

  Lemma exec_block_S F ss tail en w kr k :
    xblock (S F) (Blk ss tail) en w kr k =
    xstmts F ss en w kr (fun en' w =>
      match tail with
      | Some e => xexpr F e en' w kr (fun v w => k v (restore en en') w)
      | None => k VUnit (restore en en') w
      end).
  Proof. reflexivity. Qed.

  Lemma exec_while F c b en w kr k :
    xstmt (S F) (SWhile c b) en w kr k =
    xexpr F c en w kr (fun vc w =>
      match vc with
      | VBool true => xblock F b en w kr (fun _ en w => xstmt F (SWhile c b) en w kr k)
      | VBool false => k en w
      | _ => (Stuck "while on non-boolean", w)
      end).
  Proof. reflexivity. Qed.

  Ltac evm' := cbv -[Z.add Z.sub Z.mul Z.div Z.modulo Z.eqb Z.ltb Z.leb Z.max Z.min Z.land W64 ISIZE_MAX
                  release esz ealign needs_drop is_pow2 layout_ok
                  is_default len capacity alignment vec_handle hdr_block grow reserve reserve_exact shrink_to_fit truncate
                  data as_ptr set_len add_len slot_read slot_write slot_copy slot_copy_across padd read_list drop_list drop_elem hand_out
                  do_alloc do_realloc get_block put_block set_handle lift_opt make_layout max_align next_aligned data_offset
                  nth_error heap vecs reserve_loop].

  (* peel the next statement off, keeping the rest of the body behind an opaque continuation *)
  Ltac next_stmt K EK :=
    rewrite exec_stmts_cons;
    match goal with |- @exec_stmt _ _ _ _ _ _ _ _ _ _ ?k = _ => remember k as K eqn:EK end.

  (* ---- the doubling loop ---- *)
  Definition WH : stmt :=
    SWhile (EBin Lt (EVar "new_capacity") (EVar "total_required"))
           (Blk [SAssign "new_capacity" (ECall "next_capacity::<T>" [EVar "new_capacity"])] None).
  Definition ENV (c t a n : Z) (v : nat) : env :=
    [("new_capacity", VInt c); ("total_required", VInt t); ("capacity", VInt a); ("additional", VInt n); ("self", VObj v)].

  (* what the properties need from next_capacity (Policy.v proves it for the regenerated AST) *)
  Definition doubling : Prop :=
    forall c c', 0 <= c -> ncap c = Some c' -> 1 <= c' /\ 2 * c <= c' /\ c' < W64.
  Hypothesis Hpol : doubling.

  Definition after_loop (K : env -> state -> Ans mfail state) (t a n : Z) (v : nat) (r : res Z * state) : Ans mfail state :=
    match r with
    | (Val c', s') => K (ENV c' t a n v) s'
    | (Panicking, s') => (Panic, s')
    | (UB u, s') => (Fail (FUB u), s')
    | (AllocAbort x y, s') => (Fail (FAllocAbort x y), s')
    | (Abort, s') => (Fail FAbort, s')
    | (OutOfFuel, s') => (Fail FNoFuel, s')
    end.

  (* k doublings are enough: c * 2^k >= 2^64 *)
  Lemma loop_equiv : forall k c m fM t a n v s kr K,
    1 <= c < W64 -> W64 <= c * 2 ^ Z.of_nat k -> (k <= fM)%nat ->
    xstmt (S (10 + (k + m))) WH (ENV c t a n v) s kr K = after_loop K t a n v (reserve_loop ncap fM c t s).
  Proof.
    induction k as [|k IH]; intros c m fM t a n v s kr K Hc Hk HfM.
    - exfalso. simpl in Hk. lia.
    - unfold WH. rewrite exec_while. fold WH.
      remember (xstmt (10 + (S k + m)) WH) as REC eqn:EREC.
      destruct fM as [|fM]; [lia|].
      cbn [reserve_loop]. cbv [ENV after_loop].
      evm'. cbv [lift_opt ret panic].
      destruct (Z.ltb_spec c t) as [Hlt|Hge]; destruct (Z.leb_spec t c) as [Hle|Hgt]; try lia; [|reflexivity].
      destruct (ncap c) as [c'|] eqn:En; [|reflexivity].
      subst REC. change (10 + (S k + m))%nat with (S (10 + (k + m))).
      destruct (Hpol c c' ltac:(lia) En) as (H1 & H2 & H3).
      change [("new_capacity", VInt c'); ("total_required", VInt t); ("capacity", VInt a); ("additional", VInt n); ("self", VObj v)]
        with (ENV c' t a n v).
      rewrite (IH c' m fM t a n v s kr K); [|lia| |lia].
      + unfold after_loop, ENV. destruct (reserve_loop ncap fM c' t s) as [[x| | | | |] s']; reflexivity.
      + rewrite Nat2Z.inj_succ, Z.pow_succ_r in Hk by lia. nia.
  Qed.

  Definition cap_ok (v : nat) (s : state) : Prop := forall c s', capacity v s = (Val c, s') -> 0 <= c.

  Lemma reserve_equiv v n s :
    cap_ok v s ->
    runm lib__MiniVec__reserve_ast [VObj v; VInt n] s = lift_m (reserve cfg ncap v n) vunit s.
  Proof.
    intros Hcap.
    unfold runm, eval_fn. cbv [lib__MiniVec__reserve_ast fn_body fn_params FUEL combine rev app].
    rewrite exec_block_S.
    cbv [reserve add_m add_u bind ret lift_m vunit lift_opt panic ub fst snd].
    next_stmt K1 EK1. evm'. red1.
    destruct (capacity v s) as [[a| | | | |] s1] eqn:Ecap; try reflexivity.
    pose proof (Hcap _ _ Ecap) as Ha.
    subst K1. next_stmt K2 EK2. evm'. red1.
    destruct (len v s1) as [[l| | | | |] s2] eqn:Elen; try reflexivity.
    destruct (l + n <? W64) eqn:Eov; red1; [|reflexivity].
    subst K2. next_stmt K3 EK3. evm'. red1.
    destruct (l + n <=? a) eqn:Ele; red1; [reflexivity|].
    subst K3. next_stmt K4 EK4. evm'. red1. cbv [lift_opt ret panic].
    destruct (ncap a) as [c1|] eqn:En; red1; [|reflexivity].
    destruct (Hpol a c1 Ha En) as (H1 & H2 & H3).
    subst K4. rewrite exec_stmts_cons.
    change (SWhile _ _) with WH.
    change [("new_capacity", VInt c1); ("total_required", VInt (l + n)); ("capacity", VInt a); ("additional", VInt n); ("self", VObj v)]
      with (ENV c1 (l + n) a n v).
    change (xstmt 114 WH) with (xstmt (S (10 + (64 + 39))) WH).
    rewrite (loop_equiv 64 c1 39 130 (l + n) a n v s2); [|lia| |lia].
    2:{ change (Z.of_nat 64) with 64. unfold W64 in *. lia. }
    destruct (reserve_loop ncap 130 c1 (l + n) s2) as [[c2| | | | |] s3]; cbv [after_loop]; try reflexivity.
    cbv beta. rewrite exec_stmts_cons. evm'. sym.
  Qed.
End EquivReserve.

(* with the crate's own growth policy (Policy.ncap_policy: proved for the regenerated next_capacity) *)
Lemma reserve_equiv_policy cfg v n s :
  cap_ok v s ->
  runm cfg (ncap_of cfg) lib__MiniVec__reserve_ast [VObj v; VInt n] s = lift_m (reserve cfg (ncap_of cfg) v n) vunit s.
Proof. apply reserve_equiv. exact (ncap_policy cfg). Qed.
