(* EquivResize.v -- resize(new_len, value): `match new_len.cmp(&len)`, the reservation, the loop
   `for _i in 0..num_elems { self.push(value.clone()) }` (rendered as a `while` by the translator) and the
   truncate evaluate to Machine.resize_body, for every state and both profiles, whenever the machine's
   loop does not run out of its fuel.  (The by-value argument is dropped afterwards, also when the body
   unwinds: Rust's glue, Machine.resize = try_finally resize_body (drop value).)
   The loop sits inside a match arm: the body is peeled statement by statement, arm by arm, with the rest
   behind opaque continuations, down to the loop, which is handled by induction. *)
From Coq Require Import ZArith List String Bool Lia.
From MV Require Import Ast Eval Scalar Machine EquivDefs Prims EquivTac.
From MV.Gen Require Import AstGen.
Import ListNotations.
Open Scope string_scope.
Open Scope Z_scope.

Section EquivResize.
  Variable cfg : tcfg.
  Variable ncap : Z -> option Z.

  Local Notation P := (prim cfg ncap).
  Local Notation NOF := (fun _ : string => @None fn_ast).
  Local Notation AnsM := (outcome mfail val * state)%type.
  Local Notation xstmts := (@exec_stmts mfail state cfg NOF P).
  Local Notation xstmt := (@exec_stmt mfail state cfg NOF P).
  Local Notation xblock := (@exec_block mfail state cfg NOF P).
  Local Notation xexpr := (@eval_expr mfail state cfg NOF P).
  Local Notation xarms := (@eval_arms mfail state cfg NOF P).
  Local Notation xeblock := (@eval_eblock mfail state cfg NOF P).

  (* ---- one-step unfoldings of the evaluator ---- *)
  Lemma exec_stmts_cons F s ss en w kr k :
    xstmts (S F) (s :: ss) en w kr k = xstmt F s en w kr (fun en w => xstmts F ss en w kr k).
  Proof. reflexivity. Qed.
  Lemma exec_stmts_nil F en w kr k : xstmts (S F) [] en w kr k = k en w.
  Proof. reflexivity. Qed.
  Lemma exec_block_S F ss tail en w kr k :
    xblock (S F) (Blk ss tail) en w kr k =
    xstmts F ss en w kr (fun en' w =>
      match tail with
      | Some e => xexpr F e en' w kr (fun v w => k v (restore en en') w)
      | None => k VUnit (restore en en') w
      end).
  Proof. reflexivity. Qed.
  Lemma exec_sexpr_block F b en w kr k :
    xstmt (S F) (SExpr (EBlock b)) en w kr k = xblock F b en w kr (fun _ en w => k en w).
  Proof. reflexivity. Qed.
  Lemma eval_match_S F sc arms en w kr k :
    xexpr (S F) (EMatch sc arms) en w kr k = xexpr F sc en w kr (fun v w => xarms F v arms en w kr k).
  Proof. reflexivity. Qed.
  Lemma eval_arms_S F v p body arms en w kr k :
    xarms (S F) v ((p, body) :: arms) en w kr k =
    match match_pat p v with
    | Some bs => xexpr F body (bs ++ en)%list w kr k
    | None => xarms F v arms en w kr k
    end.
  Proof. reflexivity. Qed.
  Lemma eval_eblock_expr F b en w kr k :
    xexpr (S (S F)) (EBlock b) en w kr k =
    if block_assigns b then (Stuck "assignment inside an expression block", w)
    else xblock F b en w kr (fun v _ w => k v w).
  Proof. reflexivity. Qed.
  Lemma exec_while F c b en w kr k :
    xstmt (S F) (SWhile c b) en w kr k =
    xexpr F c en w kr (fun vc w =>
      match vc with
      | VBool true => xblock F b en w kr (fun _ en w => xstmt F (SWhile c b) en w kr k)
      | VBool false => k en w
      | _ => (Stuck "while on non-boolean", w)
      end).
  Proof. reflexivity. Qed.

  (* the Greater arm's block and its loop, taken from the regenerated body *)
  Definition GREATER : Ast.block :=
    match fn_body lib__MiniVec__resize_ast with
    | Blk _ (Some (EMatch _ [_; (_, EBlock b); _])) => b
    | _ => Blk [] None
    end.
  Definition WHR : stmt :=
    match GREATER with
    | Blk [_; _; SExpr (EBlock (Blk [_; _; w] _))] _ => w
    | _ => SForeign "no loop"
    end.
  Definition ENVR (v : nat) (n e l hi i : Z) : env :=
    [("__hi", VInt hi); ("_i", VInt i); ("num_elems", VInt hi); ("len", VInt l); ("value", VInt e);
     ("new_len", VInt n); ("self", VObj v)].

  Definition guarded {A} (r : res A * state) (x : AnsM) : AnsM :=
    match fst r with OutOfFuel => (NoFuel, snd r) | _ => x end.
  Lemma guarded_elim {A} (r : res A * state) (x y : AnsM) :
    fst r <> OutOfFuel -> guarded r x = guarded r y -> x = y.
  Proof. unfold guarded. destruct (fst r); congruence. Qed.

  Definition after_loopR (K : env -> state -> AnsM) (v : nat) (n e l hi : Z) (r : res unit * state) : AnsM :=
    match r with
    | (Val _, s') => K (ENVR v n e l hi hi) s'
    | (Panicking, s') => (Panic, s')
    | (UB u, s') => (Fail (FUB u), s')
    | (AllocAbort x y, s') => (Fail (FAllocAbort x y), s')
    | (Abort, s') => (Fail FAbort, s')
    | (OutOfFuel, s') => (Fail FNoFuel, s')
    end.

  Ltac evz := cbv -[Z.add Z.sub Z.mul Z.div Z.modulo Z.eqb Z.ltb Z.leb Z.max Z.min Z.land Z.to_nat W64 ISIZE_MAX
                  release esz ealign needs_drop is_pow2 layout_ok
                  is_default len capacity alignment vec_handle hdr_block reserve truncate
                  clone_elem push resize_loop small
                  get_block put_block set_handle
                  nth_error heap vecs guarded].
  Ltac known :=
    repeat match goal with
           | H : ?x = (_, _) |- context [?x] => rewrite H; red1
           end.

  Definition i_blind (K : env -> state -> AnsM) (v : nat) (n e l hi : Z) : Prop :=
    forall i1 i2 s, K (ENVR v n e l hi i1) s = K (ENVR v n e l hi i2) s.

  Lemma loop_equivR v n e l hi kr K (HK : i_blind K v n e l hi) : forall k F i s,
    (k <= F)%nat ->
    guarded (resize_loop cfg ncap k v e i hi s) (xstmt (S (30 + F)) WHR (ENVR v n e l hi i) s kr K) =
    guarded (resize_loop cfg ncap k v e i hi s) (after_loopR K v n e l hi (resize_loop cfg ncap k v e i hi s)).
  Proof.
    induction k as [|k IH]; intros F i s HF.
    - cbv [WHR GREATER lib__MiniVec__resize_ast fn_body]. rewrite exec_while.
      remember (xstmt (30 + F)) as REC eqn:EREC.
      cbn [resize_loop]. cbv [ENVR after_loopR].
      evz. destruct (i <? hi) eqn:E; cbv [guarded fst snd]; [reflexivity|]. apply HK.
    - destruct F as [|F]; [lia|].
      cbv [WHR GREATER lib__MiniVec__resize_ast fn_body]. rewrite exec_while.
      match goal with |- context [xstmt (30 + S F) ?w] => change w with WHR end.
      remember (xstmt (30 + S F) WHR) as REC eqn:EREC.
      cbn [resize_loop]. cbv [ENVR after_loopR uadd bind ret panic] in *.
      evz. red1.
      destruct (i <? hi) eqn:E; red1.
      2:{ cbv [guarded fst snd]. apply HK. }
      repeat first
        [ reflexivity
        | match goal with
          | |- guarded _ (REC _ ?s1 _ _) = _ =>
              subst REC; change (30 + S F)%nat with (S (30 + F)); apply (IH F _ s1); lia
          end
        | lazymatch goal with |- guarded (_, _) _ = _ => cbv [guarded fst snd] end; red1
        | lazymatch goal with |- guarded ?B _ = _ => let x := hs B in lazymatch x with resize_loop _ _ _ _ _ _ _ _ => fail | _ => case_on x end end; red1; known
        | step; known ].
  Qed.
  (* ---- the whole body ---- *)
  Definition run_resize (fuel : nat) (v : nat) (n e : Z) (s : state) : AnsM :=
    @eval_fn mfail state cfg NOF P fuel lib__MiniVec__resize_ast [VObj v; VInt n; VInt e] s.

  (* how many iterations the machine's loop is given (0 when the body does not get that far) *)
  Definition resize_bound (v : nat) (n : Z) (s : state) : nat :=
    match len v s with
    | (Val l, _) => small (n - l)
    | _ => O
    end.

  Ltac next_stmt K EK :=
    rewrite exec_stmts_cons;
    match goal with |- context [@exec_stmt _ _ _ _ _ _ _ _ _ _ ?k] => remember k as K eqn:EK end.

  (* the remaining fuel as S (30 + X) *)
  Ltac fuel_for_loop :=
    match goal with
    | |- context [xstmt ?f WHR] =>
        let X := fresh "X" in evar (X : nat);
        replace f with (S (30 + X)) by (subst X; reflexivity)
    end.

  Theorem resize_equiv v n e s F :
    0 <= n < W64 ->
    (forall l s', len v s = (Val l, s') -> 0 <= l) ->
    (resize_bound v n s <= F)%nat ->
    fst (resize_body cfg ncap v n e s) <> OutOfFuel ->
    run_resize (FUEL + F) v n e s = lift_m (resize_body cfg ncap v n e) vunit s.
  Proof.
    intros Hn Hl0 HF Hfuel.
    unfold run_resize, eval_fn. cbv [lib__MiniVec__resize_ast fn_body fn_params FUEL combine rev app].
    cbn [Nat.add].
    rewrite exec_block_S.
    unfold lift_m. unfold resize_bound in HF.
    cbv [resize_body bind ret] in Hfuel |- *.
    next_stmt K1 EK1. evz. red1.
    destruct (len v s) as [[l| | | | |] s1] eqn:El; try reflexivity.
    pose proof (Hl0 l s1 eq_refl) as Hl.
    cbv beta iota zeta in Hfuel, HF.
    subst K1. rewrite exec_stmts_nil. rewrite eval_match_S.
    (* new_len.cmp(&len) *)
    match goal with |- context [xexpr _ _ _ _ _ ?k] => remember k as K2 eqn:EK2 end.
    evz. red1.
    destruct (n <? l) eqn:Elt; red1.
    { (* Less: truncate *)
      subst K2. evz. red1. destruct (truncate cfg v n s1) as [[u| | | | |] s2]; reflexivity. }
    destruct (n =? l) eqn:Eeq; red1.
    { (* Equal *) subst K2. evz. reflexivity. }
    (* Greater: reserve, then the loop *)
    subst K2.
    rewrite eval_arms_S. cbv [match_pat String.eqb Ascii.eqb Bool.eqb Nat.eqb List.length andb].
    rewrite eval_arms_S. cbv [match_pat String.eqb Ascii.eqb Bool.eqb Nat.eqb List.length andb combine app].
    match goal with |- context [xexpr _ (EBlock ?b)] => change b with GREATER end.
    rewrite eval_eblock_expr.
    assert (Eba : block_assigns GREATER = false) by reflexivity. rewrite Eba.
    cbv [GREATER lib__MiniVec__resize_ast fn_body].
    rewrite exec_block_S.
    next_stmt K3 EK3. evz. red1.
    assert (Esub : (0 <=? n - l) = true).
    { apply Z.leb_le. apply Z.ltb_ge in Elt. lia. }
    rewrite Esub. red1.
    subst K3. next_stmt K4 EK4. evz. red1.
    destruct (reserve cfg ncap v (n - l) s1) as [[u| | | | |] s2] eqn:Er; try reflexivity.
    subst K4. rewrite exec_stmts_cons. rewrite exec_sexpr_block. rewrite exec_block_S.
    next_stmt K5 EK5. evz. subst K5.
    next_stmt K6 EK6. evz. subst K6.
    rewrite exec_stmts_cons.
    match goal with |- context [xstmt ?f ?w] => change w with WHR end.
    change [("__hi", VInt (n - l)); ("_i", VInt 0); ("num_elems", VInt (n - l)); ("len", VInt l); ("value", VInt e);
            ("new_len", VInt n); ("self", VObj v)] with (ENVR v n e l (n - l) 0).
    assert (Hgo : fst (resize_loop cfg ncap (small (n - l)) v e 0 (n - l) s2) <> OutOfFuel).
    { intros E. apply Hfuel. destruct (resize_loop cfg ncap (small (n - l)) v e 0 (n - l) s2) as [[u'| | | | |] s6]; simpl in E; try discriminate. reflexivity. }
    fuel_for_loop.
    match goal with
    | |- xstmt _ WHR _ _ ?kr ?K = _ =>
        assert (HK : i_blind K v n e l (n - l)) by (intros i1 i2 s0; reflexivity);
        apply (guarded_elim (resize_loop cfg ncap (small (n - l)) v e 0 (n - l) s2) _ _ Hgo);
        rewrite (loop_equivR v n e l (n - l) kr K HK (small (n - l)) _ 0 s2) by (subst X; lia)
    end.
    f_equal.
  Qed.
End EquivResize.
