(* EquivSwapRemove.v -- see EquivElem.v: the body of `swap_remove`, regenerated from src/lib.rs on every run, evaluates to
   Machine.swap_remove (with the function-boundary semantics of EquivElem.v). *)
From Coq Require Import ZArith List String Bool Lia.
From MV Require Import Ast Eval Scalar Machine EquivDefs Prims EquivTac EquivElem.
From MV.Gen Require Import AstGen.
Import ListNotations.
Open Scope string_scope.
Open Scope Z_scope.

Section S.
  Variable cfg : tcfg.
  Variable ncap : Z -> option Z.
  Local Notation runm := (runm cfg ncap).

  Lemma swap_remove_equiv v i s :
    len_ok v s -> 0 <= i < W64 ->
    returning cfg (runm lib__MiniVec__swap_remove_ast [VObj v; VInt i]) s = lift_m (swap_remove cfg v i) VInt s.
  Proof.
    intros Hl Hi. unfold returning, runm. evm.
    cbv [swap_remove bind ret lift_m vunit panic].
    sym; ranges Hl.
  Qed.
End S.
