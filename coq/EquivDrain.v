(* EquivDrain.v -- creating a Drain: the bodies of MiniVec::drain (bounds resolution without
   wrap-around, the two range checks, the length cut to the start of the range BEFORE the iterator
   exists) and of make_drain_iterator evaluate to Machine.make_drain, for every vector, every state,
   every pair of bounds and both profiles.  IntoIter::new evaluates to Machine.make_into. *)
From Coq Require Import ZArith List String Bool Lia.
From MV Require Import Ast Eval Scalar Machine EquivDefs Prims EquivTac.
From MV.Gen Require Import AstGen.
Import ListNotations.
Open Scope string_scope.
Open Scope Z_scope.

Section EquivDrain.
  Variable cfg : tcfg.
  Variable ncap : Z -> option Z.

  Definition drain_funs (f : string) : option fn_ast :=
    if String.eqb f "make_drain_iterator" then Some drain__make_drain_iterator_ast
    else if String.eqb f "make_splice_iterator" then Some splice__make_splice_iterator_ast
    else if String.eqb f "make_drain_filter_iterator" then Some drain_filter__make_drain_filter_iterator_ast
    else None.
  Definition runf (fa : fn_ast) (args : list val) (s : state) :=
    eval_fn cfg drain_funs (prim cfg ncap) FUEL fa args s.

  Definition bound_val (b : bound) : val :=
    match b with
    | BIncl n => VCtor "Included" [VInt n]
    | BExcl n => VCtor "Excluded" [VInt n]
    | BUnb => VCtor "Unbounded" []
    end.
  Definition range_val (bs be : bound) : val := VCtor "Range" [bound_val bs; bound_val be].
  Definition drain_val (d : drain_it) : val :=
    VStruct "Drain" [("vec_", VObj (d_vec d)); ("drain_pos_", VPtr (d_pos d)); ("drain_end_", VPtr (d_end d));
                     ("remaining_pos_", VPtr (d_rpos d)); ("remaining_", VInt (d_rem d));
                     ("marker_", VCtor "PhantomData" [])].

  (* the branches the guards exclude *)
  Ltac absurd_arith :=
    exfalso;
    repeat match goal with
           | H : (_ <? _) = true |- _ => apply Z.ltb_lt in H
           | H : (_ <? _) = false |- _ => apply Z.ltb_ge in H
           | H : (_ <=? _) = true |- _ => apply Z.leb_le in H
           | H : (_ <=? _) = false |- _ => apply Z.leb_gt in H
           end; lia.

  Lemma drain_equiv v bs be s :
    runf lib__MiniVec__drain_ast [VObj v; range_val bs be] s = lift_m (make_drain cfg v bs be None) drain_val s.
  Proof.
    unfold runf.
    destruct bs as [n|n|], be as [m|m|]; evm;
      cbv [make_drain resolve add_m add_u bind ret lift_m drain_val lift_opt panic ub fst snd d_vec d_pos d_end d_rpos d_rem]; sym;
      absurd_arith.
  Qed.

  (* MiniVec::splice(range, replace_with) + make_splice_iterator: the same creation, the iterator keeps
     the replacement (`fv`: whatever value stands for it) and a never-allocated vector has no tail *)
  Definition splice_val (fv : val) (d : drain_it) : val :=
    VStruct "Splice" [("vec_", VObj (d_vec d)); ("drain_pos_", VPtr (d_pos d)); ("drain_end_", VPtr (d_end d));
                      ("remaining_pos_", VPtr (d_rpos d)); ("remaining_", VInt (d_rem d));
                      ("marker_", VCtor "PhantomData" []); ("fill_", fv)].

  Lemma splice_equiv v bs be fv sc s :
    runf lib__MiniVec__splice_ast [VObj v; range_val bs be; fv] s =
    lift_m (make_drain cfg v bs be (Some sc)) (splice_val fv) s.
  Proof.
    unfold runf.
    destruct bs as [n|n|], be as [m|m|]; evm;
      cbv [make_drain resolve add_m add_u bind ret lift_m splice_val lift_opt panic ub fst snd d_vec d_pos d_end d_rpos d_rem]; sym;
      absurd_arith.
  Qed.

  (* MiniVec::drain_filter(pred) + make_drain_filter_iterator: the length is cut to 0 before the
     iterator exists *)
  Definition filter_val (pv : val) (f : dfilter_it) : val :=
    VStruct "DrainFilter" [("vec", VObj (f_vec f)); ("pred", pv); ("old_len", VInt (f_old f)); ("new_len", VInt (f_new f));
                           ("pos", VInt (f_pos f)); ("panicked", VBool (f_panicked f))].

  Lemma drain_filter_equiv v pv sc s :
    runf lib__MiniVec__drain_filter_ast [VObj v; pv] s = lift_m (make_filter v sc) (filter_val pv) s.
  Proof.
    unfold runf. evm. cbv [make_filter bind ret lift_m filter_val f_vec f_old f_new f_pos f_panicked]. sym.
  Qed.

  (* IntoIter::new(v) *)
  Definition into_val (it : into_it) : val :=
    VStruct "Self" [("v", VObj (i_vec it)); ("pos", VPtr (i_pos it)); ("marker", VCtor "PhantomData" [])].

  Lemma into_new_equiv v s :
    runf into_iter__IntoIter__new_ast [VObj v] s = lift_m (make_into cfg v) into_val s.
  Proof.
    unfold runf. evm. cbv [make_into bind ret lift_m into_val i_vec i_pos]. sym.
  Qed.
  (* `impl Drop for IntoIter`: the body (the embedded vector is dropped afterwards by the drop glue:
     Machine.into_drop = try_finally body (drop_vec v)) *)
  Definition into_struct (it : into_it) : val :=
    VStruct "IntoIter" [("v", VObj (i_vec it)); ("pos", VPtr (i_pos it)); ("marker", VCtor "PhantomData" [])].

  Lemma into_drop_equiv it s :
    runf into_iter__IntoIter__drop_ast [into_struct it] s = lift_m (into_drop_body cfg it) vunit s.
  Proof.
    unfold runf. destruct it as [v p]. evm. cbv [into_drop_body bind ret lift_m vunit i_vec i_pos]. sym.
  Qed.

  (* `impl Clone for IntoIter` *)
  Lemma flat_map_ints es : flat_map (fun x => match x with VInt e => [e] | _ => [] end) (map VInt es) = es.
  Proof. induction es as [|e es IH]; simpl; [reflexivity|]. rewrite IH. reflexivity. Qed.

  Lemma into_clone_equiv it s :
    runf into_iter__IntoIter__clone_ast [into_struct it] s = lift_m (into_clone_body cfg ncap it) into_val s.
  Proof.
    unfold runf. destruct it as [v p].
    cbv -[Z.add Z.sub Z.mul Z.div Z.modulo Z.eqb Z.ltb Z.leb Z.max Z.min Z.land W64 ISIZE_MAX
          release esz ealign needs_drop is_pow2 layout_ok new_obj into_as_slice extend_from_slice make_into flat_map map].
    destruct (new_obj cfg s) as [[w| | | | |] s1]; [|reflexivity..].
    destruct (into_as_slice cfg {| i_vec := v; i_pos := p |} s1) as [[es| | | | |] s2]; [|reflexivity..].
    rewrite flat_map_ints.
    destruct (extend_from_slice cfg ncap w es s2) as [[u| | | | |] s3]; [|reflexivity..].
    destruct (make_into cfg w s3) as [[t| | | | |] s4]; reflexivity.
  Qed.

  (* DrainFilter's DropGuard: move the unvisited tail down over the hole and restore the length *)
  Definition guard_struct (pv : val) (f : dfilter_it) : val := VStruct "DropGuard" [("drain", filter_val pv f)].

  Lemma filter_guard_equiv pv f s :
    0 <= f_new f <= f_pos f -> f_pos f <= f_old f < W64 ->
    runf drain_filter__DropGuard__drop_ast [guard_struct pv f] s = lift_m (filter_guard cfg f) vunit s.
  Proof.
    intros H1 H2. unfold runf. destruct f as [v o n p pk sc]. simpl in H1, H2.
    evm. cbv [filter_guard bind ret lift_m vunit f_vec f_old f_new f_pos]. sym; absurd_arith.
  Qed.
End EquivDrain.
