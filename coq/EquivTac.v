(* EquivTac.v -- symbolic evaluation of a translated body in the machine world, and the case analysis
   that compares it with a hand-written Machine function. *)
From Coq Require Import ZArith List String Bool Lia.
From MV Require Import Ast Eval Scalar Machine EquivDefs Prims.
Import ListNotations.
Open Scope string_scope.
Open Scope Z_scope.

(* A translated method body, run in the machine world.  Callee METHODS and the crate's scalar helpers
   are interpreted by the handler of Prims.v (their own bodies have their own lemmas); `funs` is empty. *)
Definition runm (cfg : tcfg) (ncap : Z -> option Z) (fa : fn_ast) (args : list val) (s : state) :=
  eval_fn cfg (fun _ => None) (prim cfg ncap) FUEL fa args s.

(* symbolic evaluation of both sides with the machine's primitives opaque *)
Ltac evm := cbv -[Z.add Z.sub Z.mul Z.div Z.modulo Z.eqb Z.ltb Z.leb Z.max Z.min Z.land W64 ISIZE_MAX
                  release esz ealign needs_drop is_pow2 layout_ok
                  is_default len capacity alignment vec_handle hdr_block grow reserve reserve_exact shrink_to_fit truncate
                  data as_ptr set_len add_len slot_read slot_write slot_copy slot_copy_across padd read_list drop_list drop_elem hand_out
                  do_alloc do_realloc get_block put_block set_handle lift_opt make_layout max_align next_aligned data_offset
                  nth_error heap vecs].

(* Symbolic execution, one primitive at a time.  After `evm` both sides are decision trees over the
   results of the same primitive calls (the evaluator is in CPS, the machine side is a chain of
   binds): `step` finds the scrutinee at the HEAD of the left side (of the right side once the left
   is a value), destructs it -- which replaces it on both sides -- and reduces.  Only reachable
   paths are explored; every leaf closes by reflexivity. *)
(* the scrutinee at the head of t: through nested matches and through applications whose head is a
   match (monadic code: `match h with ... end s`) *)
Ltac hs t :=
  lazymatch t with
  | match ?x with _ => _ end => hs x
  | ?f _ => let r := hs_app f in
            lazymatch r with
            | tt => t
            | _ => r
            end
  | _ => t
  end
with hs_app f :=
  lazymatch f with
  | match ?x with _ => _ end => hs x
  | ?g _ => hs_app g
  | _ => constr:(tt)
  end.
Ltac is_redex t :=
  lazymatch t with
  | match _ with _ => _ end => idtac
  | ?f _ => let r := hs_app f in lazymatch r with tt => fail | _ => idtac end
  end.
Ltac red1 := cbv beta iota zeta delta [negb andb orb b_size b_align slots b_live h_len h_cap h_align
                                       with_hdr HEADER_SIZE fst snd].
(* a call whose result is already known (same primitive, same state) is not analysed again *)
Ltac case_on x :=
  first [ match goal with H : x = _ |- _ => rewrite H end
        | destruct x eqn:? ].
Ltac step :=
  lazymatch goal with
  | |- ?L = ?R =>
      first [ is_redex L; let x := hs L in case_on x
            | is_redex R; let x := hs R in case_on x ]
  end; red1.
Ltac sym := red1; repeat (try reflexivity; step).
