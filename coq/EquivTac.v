(* EquivTac.v -- symbolic evaluation of a translated body in the machine world, and the case analysis
   that compares it with a hand-written Machine function. *)
From Coq Require Import ZArith List String Bool Lia.
From MV Require Import Ast Eval Scalar Machine Equiv Prims.
Import ListNotations.
Open Scope string_scope.
Open Scope Z_scope.

(* A translated method body, run in the machine world.  Callee METHODS and the crate's scalar helpers
   are interpreted by the handler of Prims.v (their own bodies have their own lemmas); `funs` is empty. *)
Definition runm (cfg : tcfg) (ncap : Z -> option Z) (fa : fn_ast) (args : list val) (s : state) :=
  eval_fn cfg (fun _ => None) (prim cfg ncap) FUEL fa args s.

Ltac evm := cbv -[Z.add Z.sub Z.mul Z.div Z.modulo Z.eqb Z.ltb Z.leb Z.max Z.min Z.land W64 ISIZE_MAX
                  release esz ealign needs_drop is_pow2 layout_ok
                  is_default len capacity alignment vec_handle hdr_block grow reserve_exact shrink_to_fit
                  do_alloc do_realloc get_block put_block set_handle lift_opt make_layout max_align
                  nth_error heap vecs].

(* case analysis on every lookup the two sides perform, re-using what is already known *)
Ltac known :=
  repeat match goal with
         | H : ?x = _ |- context [match ?x with _ => _ end] => rewrite H
         | H : ?x = _ |- context [if ?x then _ else _] => rewrite H
         end.
Ltac crush :=
  repeat (cbv beta iota zeta delta [negb andb orb b_size b_align slots b_live h_len h_cap h_align with_hdr HEADER_SIZE]; known;
          try reflexivity;
          match goal with
          | |- context [match ?x with _ => _ end] =>
              lazymatch x with
              | context [match _ with _ => _ end] => fail
              | _ => destruct x eqn:?
              end
          | |- context [if ?x then _ else _] =>
              lazymatch x with
              | context [if _ then _ else _] => fail
              | context [match _ with _ => _ end] => fail
              | _ => destruct x eqn:?
              end
          end).
