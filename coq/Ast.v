(* Ast.v -- the deeply embedded mini-Rust IR that the translator rs2v dumps
   /repo's scalar code into.  Fixed file: only Gen/*.v is regenerated.
   The translator dumps syntax; all meaning is given by Eval.v. *)
From Coq Require Export ZArith List String.
Export ListNotations.

Inductive binop :=
| Add | Sub | Mul | Div | Rem
| Eq | Ne | Lt | Le | Gt | Ge
| And | Or.

(* patterns of `match` arms *)
Inductive pat :=
| PWild                         (* _ *)
| PLit (n : Z)                  (* 1 *)
| PRange (lo hi : Z)            (* 2..=1024 *)
| PBind (x : string)            (* x *)
| PCtor (c : string) (xs : list string).
    (* Some(x), None, Bound::Included(&n), Ordering::Less, ... : constructor by
       last path segment, sub-patterns must be (reference to) identifiers *)

Inductive expr :=
| ELit (n : Z)
| EBool (b : bool)
| EUnit
| EVar (x : string)
| EBin (op : binop) (a b : expr)
| ENot (a : expr)
| EIf (c : expr) (t : block) (e : option block)
| EMatch (s : expr) (arms : list (pat * expr))
| ECall (f : string) (args : list expr)
     (* free function, associated function or method; the receiver is the
        first argument.  f is the printed path / method name, e.g.
        "next_aligned", "size_of::<T>", "self.len", ".checked_add",
        "Layout::from_size_align", ".unwrap" *)
| EField (e : expr) (f : string)
| ETuple (es : list expr)
| EStruct (name : string) (fields : list (string * expr))
| EBlock (b : block)
| EForeign (tokens : string)     (* syntax outside the IR; evaluates to Stuck *)
with block :=
| Blk (ss : list stmt) (tail : option expr)
with stmt :=
| SLet (xs : list string) (e : expr)    (* let x = e;  let (a, b) = e; *)
| SAssign (x : string) (e : expr)
| SOpAssign (op : binop) (x : string) (e : expr)   (* x += e *)
| SExpr (e : expr)
| SWhile (c : expr) (body : block)
| SReturn (e : option expr)
| SPanic (msg : string)
| SDebugAssert (e : expr)
| SForeign (tokens : string).

Record fn_ast := {
  fn_name   : string;
  fn_params : list string;      (* "self" first for methods *)
  fn_body   : block
}.
