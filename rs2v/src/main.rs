//! rs2v: dumps the scalar code and the structural facts of /repo/src as Coq terms.
//! Deliberately dumb: it prints syntax into the IR of coq/Ast.v, it never interprets.
//!
//! usage: rs2v <repo-src-dir> <out-dir>
//! writes <out-dir>/AstGen.v (one `fn_ast` per function of the crate),
//!        <out-dir>/Facts.v  (struct fields, unsafe impls, pub fn signatures, delegation shapes),
//!        <out-dir>/ast_hashes.json
use quote::ToTokens;
use std::collections::BTreeMap;
use std::fmt::Write as _;
use std::path::Path;

fn esc(s: &str) -> String {
  s.replace('"', "\"\"")
}
fn q(s: &str) -> String {
  format!("\"{}\"", esc(s))
}
fn toks<T: ToTokens>(t: &T) -> String {
  let s = t.to_token_stream().to_string();
  let s: String = s.split_whitespace().collect::<Vec<_>>().join(" ");
  s
}
fn short<T: ToTokens>(t: &T) -> String {
  let s = toks(t);
  if s.len() > 70 {
    let mut e = 70;
    while !s.is_char_boundary(e) {
      e -= 1;
    }
    format!("{}...", &s[..e])
  } else {
    s
  }
}
fn list(items: &[String]) -> String {
  format!("[{}]", items.join("; "))
}

// ---------------------------------------------------------------- expressions

fn path_name(p: &syn::Path) -> String {
  // last segment (+ turbofish), prefixed by the previous segment when that is a type name
  let n = p.segments.len();
  let last = &p.segments[n - 1];
  let mut s = last.ident.to_string();
  if let syn::PathArguments::AngleBracketed(a) = &last.arguments {
    let inner: Vec<String> = a.args.iter().map(|x| toks(x).replace(' ', "")).collect();
    s = format!("{}::<{}>", s, inner.join(","));
  }
  if n >= 2 {
    let prev = p.segments[n - 2].ident.to_string();
    if prev.chars().next().map_or(false, |c| c.is_uppercase()) {
      s = format!("{}::{}", prev, s);
    }
  }
  s
}

fn binop(op: &syn::BinOp) -> Option<(&'static str, bool)> {
  use syn::BinOp::*;
  Some(match op {
    Add(_) => ("Add", false),
    Sub(_) => ("Sub", false),
    Mul(_) => ("Mul", false),
    Div(_) => ("Div", false),
    Rem(_) => ("Rem", false),
    Eq(_) => ("Eq", false),
    Ne(_) => ("Ne", false),
    Lt(_) => ("Lt", false),
    Le(_) => ("Le", false),
    Gt(_) => ("Gt", false),
    Ge(_) => ("Ge", false),
    And(_) => ("And", false),
    Or(_) => ("Or", false),
    AddAssign(_) => ("Add", true),
    SubAssign(_) => ("Sub", true),
    MulAssign(_) => ("Mul", true),
    DivAssign(_) => ("Div", true),
    RemAssign(_) => ("Rem", true),
    _ => return None,
  })
}

fn lit_int(l: &syn::Lit) -> Option<String> {
  match l {
    syn::Lit::Int(i) => Some(i.base10_digits().to_string()),
    _ => None,
  }
}

fn pat_ident(p: &syn::Pat) -> Option<String> {
  match p {
    syn::Pat::Ident(i) if i.subpat.is_none() => Some(i.ident.to_string()),
    syn::Pat::Reference(r) => pat_ident(&r.pat),
    syn::Pat::Type(t) => pat_ident(&t.pat),
    syn::Pat::Wild(_) => Some("_".to_string()),
    _ => None,
  }
}

fn pat(p: &syn::Pat) -> Option<String> {
  Some(match p {
    syn::Pat::Wild(_) => "PWild".to_string(),
    syn::Pat::Lit(l) => format!("PLit {}", lit_int(&l.lit)?),
    syn::Pat::Range(r) => {
      let lo = match r.start.as_deref()? {
        syn::Expr::Lit(l) => lit_int(&l.lit)?,
        _ => return None,
      };
      let hi = match r.end.as_deref()? {
        syn::Expr::Lit(l) => lit_int(&l.lit)?,
        _ => return None,
      };
      match r.limits {
        syn::RangeLimits::Closed(_) => format!("PRange {} {}", lo, hi),
        syn::RangeLimits::HalfOpen(_) => format!("PRange {} ({} - 1)", lo, hi),
      }
    }
    syn::Pat::Ident(i) if i.subpat.is_none() => {
      let s = i.ident.to_string();
      if s.chars().next().map_or(false, |c| c.is_uppercase()) {
        format!("PCtor {} []", q(&s))
      } else {
        format!("PBind {}", q(&s))
      }
    }
    syn::Pat::Path(pp) => format!("PCtor {} []", q(&pp.path.segments.last()?.ident.to_string())),
    syn::Pat::TupleStruct(ts) => {
      let c = ts.path.segments.last()?.ident.to_string();
      let mut xs = vec![];
      for e in &ts.elems {
        xs.push(q(&pat_ident(e)?));
      }
      format!("PCtor {} {}", q(&c), list(&xs))
    }
    syn::Pat::Reference(r) => return pat(&r.pat),
    syn::Pat::Paren(r) => return pat(&r.pat),
    _ => return None,
  })
}

fn foreign<T: ToTokens>(t: &T) -> String {
  format!("EForeign {}", q(&short(t)))
}

fn place(e: &syn::Expr) -> Option<String> {
  // an assignable place: `x` or `a.b.c` over identifiers
  match e {
    syn::Expr::Path(p) if p.path.segments.len() == 1 => Some(p.path.segments[0].ident.to_string()),
    syn::Expr::Field(f) => {
      let base = place(&f.base)?;
      let m = match &f.member {
        syn::Member::Named(i) => i.to_string(),
        syn::Member::Unnamed(i) => i.index.to_string(),
      };
      Some(format!("{}.{}", base, m))
    }
    syn::Expr::Paren(p) => place(&p.expr),
    _ => None,
  }
}

fn mac_stmt(m: &syn::Macro) -> Option<String> {
  let name = m.path.segments.last()?.ident.to_string();
  match name.as_str() {
    "panic" | "unreachable" | "unimplemented" | "todo" => {
      let first = m.tokens.clone().into_iter().next().map(|t| t.to_string()).unwrap_or_default();
      Some(format!("SPanic {}", q(first.trim_matches('"'))))
    }
    "debug_assert" => {
      let e: syn::Expr = m.parse_body().ok()?;
      Some(format!("SDebugAssert ({})", expr(&e)))
    }
    "assert" => {
      let args = m
        .parse_body_with(syn::punctuated::Punctuated::<syn::Expr, syn::Token![,]>::parse_terminated)
        .ok()?;
      let c = args.first()?;
      Some(format!(
        "SExpr (EIf (ENot ({})) (Blk [SPanic \"assert\"] None) None)",
        expr(c)
      ))
    }
    _ => None,
  }
}

fn block(b: &syn::Block) -> String {
  let mut ss: Vec<String> = vec![];
  let mut tail: Option<String> = None;
  let n = b.stmts.len();
  for (i, s) in b.stmts.iter().enumerate() {
    let last = i + 1 == n;
    match s {
      syn::Stmt::Local(l) => ss.extend(local(l)),
      syn::Stmt::Item(_) => {}
      syn::Stmt::Macro(m) => match mac_stmt(&m.mac) {
        Some(x) => ss.push(x),
        None => ss.push(format!("SForeign {}", q(&short(m)))),
      },
      syn::Stmt::Expr(e, semi) => {
        if last && semi.is_none() {
          // tail expression; statement-like forms stay statements with a unit value
          match stmt_of_expr(e) {
            Some(st) if is_stmt_like(e) => ss.push(st),
            _ => tail = Some(expr(e)),
          }
        } else {
          match stmt_of_expr(e) {
            Some(st) => ss.push(st),
            None => ss.push(format!("SExpr ({})", expr(e))),
          }
        }
      }
    }
  }
  format!(
    "Blk {} {}",
    list(&ss),
    match tail {
      Some(t) => format!("(Some ({}))", t),
      None => "None".to_string(),
    }
  )
}

fn is_stmt_like(e: &syn::Expr) -> bool {
  matches!(
    e,
    syn::Expr::While(_) | syn::Expr::Return(_) | syn::Expr::Assign(_) | syn::Expr::Macro(_)
  ) || matches!(e, syn::Expr::Binary(b) if binop(&b.op).map_or(false, |x| x.1))
    || range_for(e).is_some()
    || iter_for(e).is_some()
}

fn no_break(b: &syn::Block) -> bool {
  let t = toks(b);
  !(t.contains("break") || t.contains("continue"))
}

// the loop `while let Some(x) = <next> { body }` with the IR's own constructs:
//   { let __go = true;
//     while __go { let __nx = <next>;
//                  if (match __nx { Some(_) => true, _ => false })
//                       { let x = match __nx { Some(x) => x, _ => unreachable }; { body } }
//                  else { __go = false; } } }
// (`<next>` is evaluated once per iteration, the body may `return`; no `break` / `continue`)
fn some_loop(var: &str, pre: &str, next: &str, step: &str, body: &str) -> String {
  format!(
    "SExpr (EBlock (Blk [{pre}SLet [\"__go\"] (EBool true); SWhile (EVar \"__go\") (Blk [SLet [\"__nx\"] ({next}); SExpr (EIf (EMatch (EVar \"__nx\") [(PCtor \"Some\" [\"_\"], EBool true); (PWild, EBool false)]) (Blk [SLet [{v}] (EMatch (EVar \"__nx\") [(PCtor \"Some\" [{v}], EVar {v}); (PWild, EBlock (Blk [SPanic \"unreachable\"] None))]); {step}SExpr (EBlock ({body}))] None) (Some (Blk [SAssign \"__go\" (EBool false)] None)))] None)] None))",
    pre = pre,
    next = next,
    v = q(var),
    step = step,
    body = body
  )
}

fn while_let(w: &syn::ExprWhile) -> Option<String> {
  let l = match &*w.cond {
    syn::Expr::Let(l) => l,
    _ => return None,
  };
  let var = match &*l.pat {
    syn::Pat::TupleStruct(ts) if ts.path.is_ident("Some") && ts.elems.len() == 1 => match &ts.elems[0] {
      syn::Pat::Ident(i) if i.subpat.is_none() && i.by_ref.is_none() => i.ident.to_string(),
      syn::Pat::Wild(_) => "_".to_string(),
      _ => return None,
    },
    _ => return None,
  };
  if !no_break(&w.body) {
    return None;
  }
  Some(some_loop(&var, "", &expr(&l.expr), "", &block(&w.body)))
}

// `for x in <iterable> { body }` (identifier or `_` pattern, not an integer range):
//   { let __it = for:into_iter(<iterable>);
//     while let Some(x) = for:next(__it) { __it = for:rest(__it); { body } } }
// the hidden iterator is a local of the loop; `for:into_iter`, `for:next` and `for:rest` are calls to
// the world (IntoIterator::into_iter, Iterator::next and the iterator after that call)
fn iter_for(e: &syn::Expr) -> Option<String> {
  let f = match e {
    syn::Expr::ForLoop(f) => f,
    _ => return None,
  };
  if range_for(e).is_some() || matches!(&*f.expr, syn::Expr::Range(_)) {
    return None;
  }
  let var = match &*f.pat {
    syn::Pat::Ident(i) if i.subpat.is_none() && i.by_ref.is_none() => i.ident.to_string(),
    syn::Pat::Wild(_) => "_".to_string(),
    _ => return None,
  };
  if !no_break(&f.body) {
    return None;
  }
  let pre = format!("SLet [\"__it\"] (ECall \"for:into_iter\" [{}]); ", expr(&f.expr));
  Some(some_loop(
    &var,
    &pre,
    "ECall \"for:next\" [EVar \"__it\"]",
    "SAssign \"__it\" (ECall \"for:rest\" [EVar \"__it\"]); ",
    &block(&f.body),
  ))
}

// `for i in lo..hi { body }` over a half-open integer range with an identifier (or `_`) pattern:
// rendered with the IR's own constructs as
//   { let i = lo; let __hi = hi; while i < __hi { { body } i += 1; } }
// (the bounds are evaluated once, the body may `return`; there is no `break` / `continue` in the IR,
// a body that uses them stays foreign)
fn range_for(e: &syn::Expr) -> Option<String> {
  let f = match e {
    syn::Expr::ForLoop(f) => f,
    _ => return None,
  };
  let var = match &*f.pat {
    syn::Pat::Ident(i) if i.subpat.is_none() => i.ident.to_string(),
    syn::Pat::Wild(_) => "_".to_string(),
    _ => return None,
  };
  let r = match &*f.expr {
    syn::Expr::Range(r) if matches!(r.limits, syn::RangeLimits::HalfOpen(_)) => r,
    _ => return None,
  };
  let (lo, hi) = match (&r.start, &r.end) {
    (Some(a), Some(b)) => (expr(a), expr(b)),
    _ => return None,
  };
  let body_toks = toks(&f.body);
  if body_toks.contains("break") || body_toks.contains("continue") {
    return None;
  }
  Some(format!(
    "SExpr (EBlock (Blk [SLet [{v}] ({lo}); SLet [\"__hi\"] ({hi}); SWhile (EBin Lt (EVar {v}) (EVar \"__hi\")) (Blk [SExpr (EBlock ({body})); SOpAssign Add {v} (ELit 1)] None)] None))",
    v = q(&var),
    lo = lo,
    hi = hi,
    body = block(&f.body)
  ))
}

fn stmt_of_expr(e: &syn::Expr) -> Option<String> {
  if let Some(st) = range_for(e) {
    return Some(st);
  }
  if let Some(st) = iter_for(e) {
    return Some(st);
  }
  match e {
    syn::Expr::While(w) => {
      if matches!(&*w.cond, syn::Expr::Let(_)) {
        if let Some(st) = while_let(w) {
          return Some(st);
        }
        return Some(format!("SForeign {}", q(&short(e))));
      }
      Some(format!("SWhile ({}) ({})", expr(&w.cond), block(&w.body)))
    }
    syn::Expr::Return(r) => Some(match &r.expr {
      Some(x) => format!("SReturn (Some ({}))", expr(x)),
      None => "SReturn None".to_string(),
    }),
    syn::Expr::Assign(a) => match place(&a.left) {
      Some(p) => Some(format!("SAssign {} ({})", q(&p), expr(&a.right))),
      None => match field_place(&a.left) {
        // `<expr>.field = rhs` through a reference obtained from a call: a world call on the object
        Some((base, f)) => Some(format!("SExpr (ECall {} [{}; {}])", q(&format!("set_field:{}", f)), base, expr(&a.right))),
        None => Some(format!("SForeign {}", q(&short(e)))),
      },
    },
    syn::Expr::Binary(b) => match binop(&b.op) {
      Some((op, true)) => match place(&b.left) {
        Some(p) if !p.contains('.') => Some(format!("SOpAssign {} {} ({})", op, q(&p), expr(&b.right))),
        // `self.f op= rhs`: read the field, compute, assign the field
        Some(p) if p.starts_with("self.") && p.matches('.').count() == 1 => Some(format!(
          "SAssign {} (EBin {} ({}) ({}))",
          q(&p),
          op,
          expr(&b.left),
          expr(&b.right)
        )),
        _ => match field_place(&b.left) {
          Some((base, f)) => Some(format!(
            "SExpr (ECall {} [{}; {}])",
            q(&format!("{}_field:{}", op.to_lowercase(), f)),
            base,
            expr(&b.right)
          )),
          None => Some(format!("SForeign {}", q(&short(e)))),
        },
      },
      _ => None,
    },
    syn::Expr::Macro(m) => mac_stmt(&m.mac),
    _ => None,
  }
}

// `<base>.field` as an assignment target whose base is a local or a call result (not `self.x`)
fn field_place(e: &syn::Expr) -> Option<(String, String)> {
  if let syn::Expr::Field(f) = e {
    if let syn::Member::Named(n) = &f.member {
      if let syn::Expr::Path(p) = &*f.base {
        if p.path.is_ident("self") {
          return None;
        }
      }
      return Some((expr(&f.base), n.to_string()));
    }
  }
  None
}

fn local(l: &syn::Local) -> Vec<String> {
  let init = match &l.init {
    Some(i) if i.diverge.is_none() => &i.expr,
    _ => return vec![format!("SForeign {}", q(&short(l)))],
  };
  fn names(p: &syn::Pat) -> Option<Vec<String>> {
    match p {
      syn::Pat::Type(t) => names(&t.pat),
      syn::Pat::Tuple(t) => {
        let mut v = vec![];
        for e in &t.elems {
          v.push(pat_ident(e)?);
        }
        Some(v)
      }
      _ => Some(vec![pat_ident(p)?]),
    }
  }
  if let syn::Pat::Struct(ps) = &l.pat {
    // let S { a, b } = e;   ==>   let __s = e; let a = __s.a; let b = __s.b;
    let mut out = vec![format!("SLet [\"__s\"] ({})", expr(init))];
    for f in &ps.fields {
      let m = match &f.member {
        syn::Member::Named(i) => i.to_string(),
        syn::Member::Unnamed(i) => i.index.to_string(),
      };
      match pat_ident(&f.pat) {
        Some(x) => out.push(format!("SLet [{}] (EField (EVar \"__s\") {})", q(&x), q(&m))),
        None => return vec![format!("SForeign {}", q(&short(l)))],
      }
    }
    return out;
  }
  match names(&l.pat) {
    Some(ns) => {
      let ns: Vec<String> = ns.iter().map(|x| q(x)).collect();
      vec![format!("SLet {} ({})", list(&ns), expr(init))]
    }
    None => vec![format!("SForeign {}", q(&short(l)))],
  }
}

fn expr(e: &syn::Expr) -> String {
  match e {
    syn::Expr::Lit(l) => match &l.lit {
      syn::Lit::Int(i) => format!("ELit {}", i.base10_digits()),
      syn::Lit::Bool(b) => format!("EBool {}", b.value),
      // a string literal is a message constant: an unbound name evaluates to the constructor of that name
      syn::Lit::Str(s) => format!("EVar {}", q(&format!("str:{}", s.value()))),
      _ => foreign(e),
    },
    syn::Expr::Path(p) => {
      if p.path.segments.len() == 1 && p.path.segments[0].arguments.is_none() {
        format!("EVar {}", q(&p.path.segments[0].ident.to_string()))
      } else {
        format!("EVar {}", q(&path_name(&p.path)))
      }
    }
    syn::Expr::Binary(b) => match binop(&b.op) {
      Some((op, false)) => format!("EBin {} ({}) ({})", op, expr(&b.left), expr(&b.right)),
      _ => foreign(e),
    },
    syn::Expr::Unary(u) => match u.op {
      syn::UnOp::Not(_) => format!("ENot ({})", expr(&u.expr)),
      syn::UnOp::Deref(_) => expr(&u.expr),
      _ => foreign(e),
    },
    syn::Expr::Reference(r) => expr(&r.expr),
    syn::Expr::Paren(p) => expr(&p.expr),
    // the empty array literal `[]` (an empty slice when borrowed)
    syn::Expr::Array(a) if a.elems.is_empty() => "ECall \"slice:empty\" []".to_string(),
    // `e?`: match e { Ok(v) => v, Err(x) => return Err(From::from(x)) }
    syn::Expr::Try(t) => format!(
      "EMatch ({}) [(PCtor \"Ok\" [\"__ok\"], EVar \"__ok\"); (PCtor \"Err\" [\"__err\"], EBlock (Blk [SReturn (Some (ECall \"Err\" [ECall \"From::from\" [EVar \"__err\"]]))] None))]",
      expr(&t.expr)
    ),
    syn::Expr::Group(g) => expr(&g.expr),
    syn::Expr::Cast(c) => format!(
      "ECall {} [{}]",
      q(&format!("as::<{}>", toks(&c.ty).replace(' ', ""))),
      expr(&c.expr)
    ),
    syn::Expr::If(i) => {
      if let syn::Expr::Let(l) = &*i.cond {
        // if let P = e { A } else { B }  ==>  match e { P => A, _ => B }
        let p = match pat(&l.pat) {
          Some(p) => p,
          None => return foreign(e),
        };
        let els = match &i.else_branch {
          Some((_, b)) => expr(b),
          None => "EUnit".to_string(),
        };
        return format!(
          "EMatch ({}) [({}, EBlock ({})); (PWild, {})]",
          expr(&l.expr),
          p,
          block(&i.then_branch),
          els
        );
      }
      let els = match &i.else_branch {
        None => "None".to_string(),
        Some((_, b)) => match &**b {
          syn::Expr::Block(bb) => format!("(Some ({}))", block(&bb.block)),
          other => format!("(Some (Blk [] (Some ({}))))", expr(other)),
        },
      };
      format!("EIf ({}) ({}) {}", expr(&i.cond), block(&i.then_branch), els)
    }
    syn::Expr::Match(m) => {
      let mut arms = vec![];
      for a in &m.arms {
        if a.guard.is_some() {
          return foreign(e);
        }
        match pat(&a.pat) {
          Some(p) => arms.push(format!("({}, {})", p, expr(&a.body))),
          None => return foreign(e),
        }
      }
      format!("EMatch ({}) {}", expr(&m.expr), list(&arms))
    }
    syn::Expr::Call(c) => {
      // `(self.f)(args)`: a closure stored in a field of self is called
      if let syn::Expr::Paren(pe) = &*c.func {
        if let syn::Expr::Field(f) = &*pe.expr {
          if let (syn::Member::Named(n), syn::Expr::Path(bp)) = (&f.member, &*f.base) {
            if bp.path.is_ident("self") {
              let mut args = vec!["EVar \"self\"".to_string()];
              args.extend(c.args.iter().map(expr));
              return format!("ECall {} {}", q(&format!("call_field:{}", n)), list(&args));
            }
          }
        }
      }
      let name = match &*c.func {
        syn::Expr::Path(p) => path_name(&p.path),
        _ => return foreign(e),
      };
      let args: Vec<String> = c.args.iter().map(expr).collect();
      format!("ECall {} {}", q(&name), list(&args))
    }
    syn::Expr::MethodCall(m) => {
      let mut name = format!(".{}", m.method);
      if let Some(t) = &m.turbofish {
        let inner: Vec<String> = t.args.iter().map(|x| toks(x).replace(' ', "")).collect();
        name = format!("{}::<{}>", name, inner.join(","));
      }
      let mut args = vec![expr(&m.receiver)];
      args.extend(m.args.iter().map(expr));
      format!("ECall {} {}", q(&name), list(&args))
    }
    syn::Expr::Field(f) => {
      let m = match &f.member {
        syn::Member::Named(i) => i.to_string(),
        syn::Member::Unnamed(i) => i.index.to_string(),
      };
      format!("EField ({}) {}", expr(&f.base), q(&m))
    }
    // `a[i]` with a plain index (not a range): Index::index on the slice the object derefs to
    syn::Expr::Index(ix) if !matches!(&*ix.index, syn::Expr::Range(_)) => {
      format!("ECall \"index\" [{}; {}]", expr(&ix.expr), expr(&ix.index))
    }
    syn::Expr::Tuple(t) => {
      if t.elems.is_empty() {
        "EUnit".to_string()
      } else {
        let es: Vec<String> = t.elems.iter().map(expr).collect();
        format!("ETuple {}", list(&es))
      }
    }
    syn::Expr::Struct(s) => {
      if s.rest.is_some() {
        return foreign(e);
      }
      let name = s.path.segments.last().map(|x| x.ident.to_string()).unwrap_or_default();
      let mut fs = vec![];
      for f in &s.fields {
        let m = match &f.member {
          syn::Member::Named(i) => i.to_string(),
          syn::Member::Unnamed(i) => i.index.to_string(),
        };
        fs.push(format!("({}, {})", q(&m), expr(&f.expr)));
      }
      format!("EStruct {} {}", q(&name), list(&fs))
    }
    syn::Expr::Block(b) => format!("EBlock ({})", block(&b.block)),
    syn::Expr::Unsafe(u) => format!("EBlock ({})", block(&u.block)),
    syn::Expr::Macro(m) => match mac_stmt(&m.mac) {
      Some(s) => format!("EBlock (Blk [{}] None)", s),
      None => foreign(e),
    },
    syn::Expr::Return(_) | syn::Expr::While(_) | syn::Expr::Assign(_) => match stmt_of_expr(e) {
      Some(s) => format!("EBlock (Blk [{}] None)", s),
      None => foreign(e),
    },
    _ => foreign(e),
  }
}

// ---------------------------------------------------------------- items

#[derive(Default)]
struct Out {
  fns: Vec<(String, String, String)>, // (coq name, display, term)
  hashes: BTreeMap<String, String>,
  structs: Vec<String>,
  unsafe_impls: Vec<String>,
  sigs: Vec<String>,
  delegs: Vec<String>,
  macros: Vec<String>,
  seen: BTreeMap<String, usize>,
}

fn fnv(s: &str) -> String {
  let mut h: u64 = 0xcbf29ce484222325;
  for b in s.bytes() {
    h ^= b as u64;
    h = h.wrapping_mul(0x100000001b3);
  }
  format!("{:016x}", h)
}

fn ident_ok(s: &str) -> String {
  s.chars().map(|c| if c.is_alphanumeric() || c == '_' { c } else { '_' }).collect()
}

fn type_name(t: &syn::Type) -> String {
  match t {
    syn::Type::Path(p) => p.path.segments.last().map(|s| s.ident.to_string()).unwrap_or_default(),
    syn::Type::Reference(r) => type_name(&r.elem),
    _ => ident_ok(&toks(t)),
  }
}

fn emit_fn(out: &mut Out, file: &str, owner: &str, sig: &syn::Signature, body: &syn::Block) {
  let mut name = if owner.is_empty() {
    format!("{}__{}", file, sig.ident)
  } else {
    format!("{}__{}__{}", file, owner, sig.ident)
  };
  let k = out.seen.entry(name.clone()).or_insert(0);
  *k += 1;
  if *k > 1 {
    name = format!("{}_{}", name, k);
  }
  let mut params = vec![];
  for a in &sig.inputs {
    match a {
      syn::FnArg::Receiver(_) => params.push(q("self")),
      syn::FnArg::Typed(t) => params.push(q(&pat_ident(&t.pat).unwrap_or_else(|| "_".into()))),
    }
  }
  let term = format!(
    "{{| fn_name := {}; fn_params := {}; fn_body := {} |}}",
    q(&sig.ident.to_string()),
    list(&params),
    block(body)
  );
  out.hashes.insert(name.clone(), fnv(&format!("{} {}", toks(sig), toks(body))));
  out.fns.push((ident_ok(&name), format!("{}::{}", owner, sig.ident), term));
}

/// classify a type for the layout model of C13
fn field_class(t: &syn::Type) -> String {
  let s = toks(t).replace(' ', "");
  let last = match t {
    syn::Type::Path(p) => p.path.segments.last().map(|x| x.ident.to_string()).unwrap_or_default(),
    _ => String::new(),
  };
  let arg = match t {
    syn::Type::Path(p) => match &p.path.segments.last().unwrap().arguments {
      syn::PathArguments::AngleBracketed(a) => a.args.first().map(|x| toks(x).replace(' ', "")).unwrap_or_default(),
      _ => String::new(),
    },
    _ => String::new(),
  };
  match (last.as_str(), t) {
    ("NonNull", _) => format!("FNonNull {}", q(&arg)),
    ("PhantomData", _) => format!("FPhantom {}", q(&arg)),
    ("usize", _) | ("isize", _) => "FWord".to_string(),
    ("bool", _) | ("u8", _) => "FByte".to_string(),
    (_, syn::Type::Ptr(p)) => format!("FRawPtr {}", q(&toks(&p.elem).replace(' ', ""))),
    (_, syn::Type::Reference(r)) => format!("FRef {}", q(&toks(&r.elem).replace(' ', ""))),
    (_, syn::Type::Array(a)) => format!("FArray {} {}", q(&toks(&a.elem).replace(' ', "")), q(&toks(&a.len))),
    ("T", _) => "FElem".to_string(),
    ("Option", _) => format!("FOption {}", q(&arg)),
    ("MiniVec", _) => "FMiniVec".to_string(),
    _ => format!("FOther {}", q(&s)),
  }
}

fn generics_str(g: &syn::Generics) -> (Vec<String>, Vec<String>) {
  // (params, bounds "T: Send" flattened incl. where clause)
  let mut ps = vec![];
  let mut bs = vec![];
  for p in &g.params {
    match p {
      syn::GenericParam::Type(t) => {
        ps.push(t.ident.to_string());
        for b in &t.bounds {
          bs.push(format!("{}: {}", t.ident, toks(b).replace(' ', "")));
        }
      }
      syn::GenericParam::Lifetime(l) => {
        ps.push(l.lifetime.to_string());
        for b in &l.bounds {
          bs.push(format!("{}: {}", l.lifetime, b));
        }
      }
      syn::GenericParam::Const(c) => ps.push(format!("const {}", c.ident)),
    }
  }
  if let Some(w) = &g.where_clause {
    for p in &w.predicates {
      match p {
        syn::WherePredicate::Type(t) => {
          for b in &t.bounds {
            bs.push(format!("{}: {}", toks(&t.bounded_ty).replace(' ', ""), toks(b).replace(' ', "")));
          }
        }
        syn::WherePredicate::Lifetime(l) => {
          for b in &l.bounds {
            bs.push(format!("{}: {}", l.lifetime, b));
          }
        }
        _ => {}
      }
    }
  }
  (ps, bs)
}

fn emit_sig(out: &mut Out, file: &str, owner: &str, trait_: &str, impl_g: Option<&syn::Generics>, vis_pub: bool, sig: &syn::Signature) {
  let recv = match sig.inputs.first() {
    Some(syn::FnArg::Receiver(r)) => {
      if r.reference.is_some() {
        if r.mutability.is_some() {
          "RMut"
        } else {
          "RShared"
        }
      } else {
        "ROwned"
      }
    }
    _ => "RNone",
  };
  let (mut ps, mut bs) = generics_str(&sig.generics);
  if let Some(g) = impl_g {
    let (p2, b2) = generics_str(g);
    ps.extend(p2);
    bs.extend(b2);
  }
  let ret = match &sig.output {
    syn::ReturnType::Default => "()".to_string(),
    syn::ReturnType::Type(_, t) => toks(t).replace(' ', ""),
  };
  let args: Vec<String> = sig
    .inputs
    .iter()
    .filter_map(|a| match a {
      syn::FnArg::Typed(t) => Some(q(&toks(&t.ty).replace(' ', ""))),
      _ => None,
    })
    .collect();
  out.sigs.push(format!(
    "{{| s_file := {}; s_owner := {}; s_trait := {}; s_name := {}; s_pub := {}; s_unsafe := {}; s_recv := {}; s_generics := {}; s_bounds := {}; s_args := {}; s_ret := {} |}}",
    q(file),
    q(owner),
    q(trait_),
    q(&sig.ident.to_string()),
    vis_pub,
    sig.unsafety.is_some(),
    recv,
    list(&ps.iter().map(|x| q(x)).collect::<Vec<_>>()),
    list(&bs.iter().map(|x| q(x)).collect::<Vec<_>>()),
    list(&args),
    q(&ret)
  ));
}

/// shape of a delegating body: which slice operation is applied to the deref'd operands
fn deleg_shape(body: &syn::Block) -> String {
  // normalise: strip lets that only re-borrow (`let x: &[T] = &**self;`), then look at the tail
  let mut alias: BTreeMap<String, String> = BTreeMap::new();
  fn strip(e: &syn::Expr, alias: &BTreeMap<String, String>) -> Option<String> {
    match e {
      syn::Expr::Reference(r) => strip(&r.expr, alias),
      syn::Expr::Unary(u) if matches!(u.op, syn::UnOp::Deref(_)) => strip(&u.expr, alias),
      syn::Expr::Paren(p) => strip(&p.expr, alias),
      syn::Expr::Path(p) if p.path.segments.len() == 1 => {
        let s = p.path.segments[0].ident.to_string();
        Some(alias.get(&s).cloned().unwrap_or(s))
      }
      syn::Expr::Index(i) => {
        // x[..]
        if toks(&i.index) == ".." {
          strip(&i.expr, alias)
        } else {
          None
        }
      }
      syn::Expr::MethodCall(m) if m.args.is_empty() && (m.method == "as_slice" || m.method == "as_mut_slice" || m.method == "deref" || m.method == "deref_mut") => strip(&m.receiver, alias),
      _ => None,
    }
  }
  let n = body.stmts.len();
  for (i, s) in body.stmts.iter().enumerate() {
    match s {
      syn::Stmt::Local(l) => {
        let x = match pat_ident(&l.pat) {
          Some(x) => x,
          None => return "Opaque".into(),
        };
        let init = match &l.init {
          Some(i) => &i.expr,
          None => return "Opaque".into(),
        };
        match strip(init, &alias) {
          Some(t) => {
            alias.insert(x, t);
          }
          None => return "Opaque".into(),
        }
      }
      syn::Stmt::Expr(e, _) if i + 1 == n => {
        // the tail (with or without a trailing semicolon)
        return match e {
          syn::Expr::Binary(b) => {
            let op = match b.op {
              syn::BinOp::Eq(_) => "eq",
              syn::BinOp::Ne(_) => "ne",
              _ => return "Opaque".into(),
            };
            match (strip(&b.left, &alias), strip(&b.right, &alias)) {
              (Some(a), Some(c)) => format!("Delegates {} [{}; {}]", q(op), q(&a), q(&c)),
              _ => "Opaque".into(),
            }
          }
          syn::Expr::MethodCall(m) => {
            let mut ops = vec![];
            match strip(&m.receiver, &alias) {
              Some(a) => ops.push(q(&a)),
              None => return "Opaque".into(),
            }
            for a in &m.args {
              match strip(a, &alias) {
                Some(a) => ops.push(q(&a)),
                None => return "Opaque".into(),
              }
            }
            format!("Delegates {} {}", q(&m.method.to_string()), list(&ops))
          }
          syn::Expr::Call(c) => {
            let f = match &*c.func {
              syn::Expr::Path(p) => p.path.segments.last().map(|s| s.ident.to_string()).unwrap_or_default(),
              _ => return "Opaque".into(),
            };
            let mut ops = vec![];
            for a in &c.args {
              match strip(a, &alias) {
                Some(a) => ops.push(q(&a)),
                None => return "Opaque".into(),
              }
            }
            format!("Delegates {} {}", q(&f), list(&ops))
          }
          other => match strip(other, &alias) {
            Some(a) => format!("Delegates \"id\" [{}]", q(&a)),
            None => "Opaque".into(),
          },
        };
      }
      _ => return "Opaque".into(),
    }
  }
  "Opaque".into()
}

fn walk_block_items(out: &mut Out, file: &str, b: &syn::Block) {
  for s in &b.stmts {
    if let syn::Stmt::Item(it) = s {
      walk_item(out, file, it);
    }
  }
}

fn walk_item(out: &mut Out, file: &str, it: &syn::Item) {
  match it {
    syn::Item::Fn(f) => {
      if f.attrs.iter().any(|a| a.path().is_ident("test")) {
        return;
      }
      emit_fn(out, file, "", &f.sig, &f.block);
      emit_sig(out, file, "", "", None, matches!(f.vis, syn::Visibility::Public(_)), &f.sig);
      walk_block_items(out, file, &f.block);
    }
    syn::Item::Struct(s) => {
      let mut fs = vec![];
      for (i, f) in s.fields.iter().enumerate() {
        let n = f.ident.as_ref().map(|x| x.to_string()).unwrap_or_else(|| i.to_string());
        fs.push(format!("({}, {})", q(&n), field_class(&f.ty)));
      }
      let (ps, bs) = generics_str(&s.generics);
      let reprs: Vec<String> = s.attrs.iter().filter(|a| a.path().is_ident("repr")).map(|a| q(&toks(a))).collect();
      out.structs.push(format!(
        "{{| st_file := {}; st_name := {}; st_generics := {}; st_bounds := {}; st_repr := {}; st_fields := {} |}}",
        q(file),
        q(&s.ident.to_string()),
        list(&ps.iter().map(|x| q(x)).collect::<Vec<_>>()),
        list(&bs.iter().map(|x| q(x)).collect::<Vec<_>>()),
        list(&reprs),
        list(&fs)
      ));
    }
    syn::Item::Impl(im) => {
      let owner = type_name(&im.self_ty);
      let tr = im.trait_.as_ref().map(|(_, p, _)| toks(p).replace(' ', "")).unwrap_or_default();
      if im.unsafety.is_some() {
        let (ps, bs) = generics_str(&im.generics);
        let _ = ps;
        out.unsafe_impls.push(format!(
          "{{| ui_trait := {}; ui_type := {}; ui_bounds := {} |}}",
          q(tr.rsplit("::").next().unwrap_or("")),
          q(&owner),
          list(&bs.iter().map(|x| q(x)).collect::<Vec<_>>())
        ));
      }
      for ii in &im.items {
        if let syn::ImplItem::Fn(f) = ii {
          emit_fn(out, file, &owner, &f.sig, &f.block);
          let is_pub = matches!(f.vis, syn::Visibility::Public(_)) || im.trait_.is_some();
          emit_sig(out, file, &owner, &tr, Some(&im.generics), is_pub, &f.sig);
          if im.trait_.is_some() {
            out.delegs.push(format!(
              "{{| d_file := {}; d_trait := {}; d_self := {}; d_fn := {}; d_shape := {} |}}",
              q(file),
              q(&tr),
              q(&toks(&im.self_ty).replace(' ', "")),
              q(&f.sig.ident.to_string()),
              deleg_shape(&f.block)
            ));
          }
          walk_block_items(out, file, &f.block);
        }
      }
    }
    syn::Item::Mod(m) => {
      if m.attrs.iter().any(|a| toks(a).contains("cfg ( test )")) {
        return;
      }
      if let Some((_, items)) = &m.content {
        for it in items {
          walk_item(out, file, it);
        }
      }
    }
    syn::Item::Macro(m) => {
      // macro_rules! with arms: record per arm how often each metavariable occurs in the
      // expansion and whether the occurrence sits inside a loop body
      let body = m.mac.tokens.to_string();
      let body = body.split_whitespace().collect::<Vec<_>>().join(" ");
      if let Some(id) = &m.ident {
        out.macros.push(format!("({}, {})", q(&id.to_string()), q(&body)));
      } else {
        // an invocation at item level, e.g. `minivec_eq_impl! { [] MiniVec<T>, [U] }`
        let name = m.mac.path.segments.last().map(|x| x.ident.to_string()).unwrap_or_default();
        out.macros.push(format!("({}, {})", q(&format!("call:{}", name)), q(&body)));
      }
    }
    _ => {}
  }
}

fn main() {
  let args: Vec<String> = std::env::args().collect();
  if args.len() < 3 {
    eprintln!("usage: rs2v <src-dir> <out-dir>");
    std::process::exit(2);
  }
  let src = Path::new(&args[1]);
  let outd = Path::new(&args[2]);
  std::fs::create_dir_all(outd).unwrap();
  let mut files: Vec<std::path::PathBuf> = vec![];
  fn collect(d: &Path, v: &mut Vec<std::path::PathBuf>) {
    let mut es: Vec<_> = std::fs::read_dir(d).unwrap().map(|e| e.unwrap().path()).collect();
    es.sort();
    for p in es {
      if p.is_dir() {
        collect(&p, v);
      } else if p.extension().map_or(false, |e| e == "rs") {
        v.push(p);
      }
    }
  }
  collect(src, &mut files);
  let mut out = Out::default();
  let mut errors = vec![];
  for f in &files {
    let text = std::fs::read_to_string(f).unwrap();
    let stem = f.file_stem().unwrap().to_string_lossy().to_string();
    match syn::parse_file(&text) {
      Ok(ast) => {
        for it in &ast.items {
          walk_item(&mut out, &stem, it);
        }
      }
      Err(e) => errors.push(format!("{}: {}", f.display(), e)),
    }
  }
  if !errors.is_empty() {
    for e in &errors {
      eprintln!("rs2v: parse error: {}", e);
    }
    std::process::exit(3);
  }

  let mut s = String::new();
  writeln!(s, "(* GENERATED by rs2v from {} -- do not edit *)", src.display()).unwrap();
  writeln!(s, "From MV Require Import Ast.\nImport ListNotations.\nOpen Scope string_scope.\nOpen Scope Z_scope.\n").unwrap();
  for (name, disp, term) in &out.fns {
    writeln!(s, "(* {} *)\nDefinition {}_ast : fn_ast :=\n  {}.\n", disp, name, term).unwrap();
  }
  writeln!(s, "Definition all_fn_names : list string := {}.", list(&out.fns.iter().map(|x| q(&x.0)).collect::<Vec<_>>())).unwrap();
  std::fs::write(outd.join("AstGen.v"), s).unwrap();

  let mut s = String::new();
  writeln!(s, "(* GENERATED by rs2v from {} -- do not edit *)", src.display()).unwrap();
  writeln!(s, "From MV Require Import FactsDef.\nImport ListNotations.\nOpen Scope string_scope.\n").unwrap();
  writeln!(s, "Definition structs : list struct_fact :=\n  {}.\n", list(&out.structs).replace("; {|", ";\n   {|")).unwrap();
  writeln!(s, "Definition unsafe_impls : list unsafe_impl_fact :=\n  {}.\n", list(&out.unsafe_impls).replace("; {|", ";\n   {|")).unwrap();
  writeln!(s, "Definition sigs : list sig_fact :=\n  {}.\n", list(&out.sigs).replace("; {|", ";\n   {|")).unwrap();
  writeln!(s, "Definition delegs : list deleg_fact :=\n  {}.\n", list(&out.delegs).replace("; {|", ";\n   {|")).unwrap();
  writeln!(s, "Definition macros : list (string * string) :=\n  {}.\n", list(&out.macros)).unwrap();
  std::fs::write(outd.join("Facts.v"), s).unwrap();

  let mut j = String::from("{\n");
  let n = out.hashes.len();
  for (i, (k, v)) in out.hashes.iter().enumerate() {
    writeln!(j, "  \"{}\": \"{}\"{}", k, v, if i + 1 == n { "" } else { "," }).unwrap();
  }
  j.push_str("}\n");
  std::fs::write(outd.join("ast_hashes.json"), j).unwrap();
  println!("rs2v: {} files, {} functions, {} structs, {} signatures", files.len(), out.fns.len(), out.structs.len(), out.sigs.len());
}
