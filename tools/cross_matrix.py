#!/usr/bin/env python3
"""cross_matrix.py <mutation ids...>: run EVERY check against each given seeded mutation (VERIF_REPO as in
run_seeded.py) and print, per mutation, which checks raise an alarm and how.  Used to find cross-talk: an
alarm of a check whose property the mutation does not break."""
import sys, os, subprocess, json, re, time
V = os.path.dirname(os.path.dirname(os.path.abspath(__file__)))
REPO = os.environ.get("VERIF_REPO", "/repo")
PROPS = ["C%02d" % i for i in range(1, 20)]
def sh(cmd, cwd=None, timeout=3000):
    p = subprocess.run(cmd, shell=True, cwd=cwd, stdout=subprocess.PIPE, stderr=subprocess.STDOUT, text=True, timeout=timeout)
    return p.returncode, p.stdout
out = {}
for i in sys.argv[1:]:
    d = os.path.join(V, "seeded", i)
    rc, o = sh("git -C %s apply %s" % (REPO, os.path.join(d, "patch.diff")))
    if rc != 0:
        print(i, "PATCH DOES NOT APPLY"); continue
    row = {}
    try:
        for p in PROPS:
            t0 = time.time()
            rc2, o = sh("./check %s --tier quick" % p, cwd=V)
            vl = [l for l in o.splitlines() if l.startswith("VIOLATION")]
            if rc2 != 0 and vl:
                how = "nfi" if vl[0].endswith("no-failing-input-found") else "input"
                detail = ""
                m = re.search(r"replay=(\S+)", vl[0])
                if m and os.path.exists(m.group(1)):
                    r = json.load(open(m.group(1)))
                    detail = (", ".join((r.get("verdicts") or [])[:2]) or str((r.get("mismatch") or {}).get("why") or r.get("no_longer_checks") or ""))[:120]
                row[p] = "%s: %s" % (how, detail)
            elif rc2 != 0:
                row[p] = "rc=%d without VIOLATION line" % rc2
        print(i, json.dumps(row), flush=True)
    finally:
        sh("git -C %s checkout -- ." % REPO)
    out[i] = row
json.dump(out, open(os.path.join(V, "seeded", "cross_matrix_%d.json" % int(time.time())), "w"), indent=1)
