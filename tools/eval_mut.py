#!/usr/bin/env python3
"""eval_mut.py <prop> <k> [--props P1,P2]: validate a seeded mutation produced in /tmp/mut_<prop>/out/<k>
(or already stored under /verif/seeded/<prop>_<k>) and run the checks against it.
 1. scratch worktree: demo passes on the clean tree; with the patch the pinned suite passes and the demo fails
 2. apply to /repo, run ./check for the property (and extra ones), revert
Writes /verif/seeded/<prop>_<k>/{patch.diff,demo.rs,meta.json}."""
import sys, os, subprocess, json, shutil, re, time
pid, k = sys.argv[1], sys.argv[2]
extra = []
if "--props" in sys.argv:
    extra = sys.argv[sys.argv.index("--props") + 1].split(",")
name = "%s_%s" % (pid, k)
src = "/tmp/mut_%s/out/%s" % (pid, k)
dst = "/verif/seeded/" + name
os.makedirs(dst, exist_ok=True)
for f in ("patch.diff", "demo.rs", "meta.txt"):
    if os.path.exists(os.path.join(src, f)):
        shutil.copy(os.path.join(src, f), os.path.join(dst, f))
env = dict(os.environ, CARGO_NET_OFFLINE="true")
def sh(cmd, cwd=None, timeout=1800):
    p = subprocess.run(cmd, shell=True, cwd=cwd, env=env, stdout=subprocess.PIPE, stderr=subprocess.STDOUT, text=True, timeout=timeout)
    return p.returncode, p.stdout
wt = "/tmp/val_" + name
sh("git -C /repo worktree remove --force %s" % wt)
rc, out = sh("git -C /repo worktree add -q --detach %s HEAD" % wt)
res = {"property": pid, "id": name}
try:
    shutil.copy(os.path.join(dst, "demo.rs"), os.path.join(wt, "tests", "demo_seed.rs"))
    rc, out = sh("cargo test --offline --test demo_seed 2>&1 | tail -15", cwd=wt)
    res["demo_on_clean_tree"] = "passes" if re.search(r"test result: ok", out) and "FAILED" not in out else "FAILS: " + out[-500:]
    rc, out = sh("git apply %s" % os.path.join(dst, "patch.diff"), cwd=wt)
    res["patch_applies"] = rc == 0
    rc, out = sh("cargo test --offline --no-fail-fast 2>&1 | grep -E '^test result|Running|Doc-tests|error' ", cwd=wt)
    lines = out.splitlines()
    # pair "Running ..." with the following "test result"
    suite_ok, demo_failed, cur = True, False, ""
    for l in lines:
        if l.strip().startswith("Running") or l.strip().startswith("Doc-tests"):
            cur = l
        elif l.startswith("test result"):
            ok = l.startswith("test result: ok")
            if "demo_seed" in cur:
                demo_failed = not ok
            elif not ok:
                suite_ok = False
        elif l.startswith("error"):
            if "demo_seed" in cur or "test failed" in l:
                pass
    # a crashing demo produces no "test result" line
    if "demo_seed" in out and not re.search(r"demo_seed[^\n]*\n(?:.*\n)*?test result", out):
        demo_failed = True
    res["pinned_suite_with_patch"] = "passes" if suite_ok else "FAILS"
    res["demo_with_patch"] = "fails" if demo_failed else "passes (?)"
    res["suite_log"] = lines[-12:]
finally:
    sh("git -C /repo worktree remove --force %s" % wt)
    shutil.rmtree(wt, ignore_errors=True)
# run the checks against /repo with the patch
rc, out = sh("git -C /repo apply %s" % os.path.join(dst, "patch.diff"))
detected = {}
try:
    if rc == 0:
        for p in [pid] + extra:
            t0 = time.time()
            rc2, o = sh("./check %s --tier quick" % p, cwd="/verif", timeout=1500)
            vl = [l for l in o.splitlines() if l.startswith("VIOLATION") or l.startswith("KNOWN")]
            real = [l for l in vl if l.startswith("VIOLATION") and "_unproved.json" not in l]
            rep = None
            for l in real[:1]:
                m = re.search(r"replay=(\S+)", l)
                if m and os.path.exists(m.group(1)):
                    r = json.load(open(m.group(1)))
                    rep = {"history": r.get("history"), "verdicts": r.get("verdicts"), "fate": r.get("fate"),
                           "mismatch": (r.get("mismatch") or {}).get("why"), "no_longer_checks": r.get("no_longer_checks")}
            detected[p] = {"exit": rc2, "violation_lines": vl[:6], "caught": bool(real), "first_replay": rep, "wall_s": round(time.time() - t0, 1)}
finally:
    sh("git -C /repo checkout -- .")
res["checks"] = detected
res["what_it_needs"] = open(os.path.join(dst, "meta.txt")).read()[:1500] if os.path.exists(os.path.join(dst, "meta.txt")) else ""
res["ran"] = ["scratch worktree: cargo test --offline --test demo_seed (clean); git apply patch; cargo test --offline --no-fail-fast",
              "git -C /repo apply patch.diff; ./check %s --tier quick; git -C /repo checkout -- ." % pid]
json.dump(res, open(os.path.join(dst, "meta.json"), "w"), indent=1)
print(name, "clean-demo:", res.get("demo_on_clean_tree"), "| suite:", res.get("pinned_suite_with_patch"), "| demo:", res.get("demo_with_patch"),
      "| caught:", {p: d["caught"] for p, d in detected.items()})
for p, d in detected.items():
    for l in d["violation_lines"][:2]:
        print("   ", l)
    if d["first_replay"]:
        print("    ->", json.dumps(d["first_replay"])[:400])
