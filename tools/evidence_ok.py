#!/usr/bin/env python3
"""evidence_ok.py: every committed evidence file is from a run that held (discharged == obligations, no failed
entries).  Run before committing evidence/."""
import json, sys, os
V = os.path.dirname(os.path.dirname(os.path.abspath(__file__)))
bad = []
for i in range(1, 20):
    p = os.path.join(V, "evidence", "C%02d.json" % i)
    e = json.load(open(p)); c = e["coverage"]
    if c.get("obligations") != c.get("discharged") or c.get("failed"):
        bad.append(p)
print("evidence ok" if not bad else "STALE / FAILED EVIDENCE: " + ", ".join(bad))
sys.exit(1 if bad else 0)
