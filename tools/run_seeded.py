#!/usr/bin/env python3
"""run_seeded.py [ids...]: run the checks against every seeded mutation under /verif/seeded.
Works on the repository given by VERIF_REPO (default /repo; under `vp run --with-repo` pass
VERIF_REPO=$VP_RUN_REPO): applies patch.diff, runs ./check <property> --tier quick, reverts.
Prints one line per mutation and writes seeded/<id>/result.json (caught / how)."""
import sys, os, subprocess, json, re, time
V = os.path.dirname(os.path.dirname(os.path.abspath(__file__)))
REPO = os.environ.get("VERIF_REPO", "/repo")
ids = sys.argv[1:] or sorted(d for d in os.listdir(os.path.join(V, "seeded")) if os.path.exists(os.path.join(V, "seeded", d, "patch.diff")))
def sh(cmd, cwd=None, timeout=2400):
    p = subprocess.run(cmd, shell=True, cwd=cwd, stdout=subprocess.PIPE, stderr=subprocess.STDOUT, text=True, timeout=timeout)
    return p.returncode, p.stdout
summary = []
for i in ids:
    d = os.path.join(V, "seeded", i)
    pid = i.split("_")[0]
    meta = {}
    try:
        meta = json.load(open(os.path.join(d, "meta.json")))
    except Exception:
        pass
    props = [pid] + [p for p in meta.get("also_check", [])]
    rc, out = sh("git -C %s apply %s" % (REPO, os.path.join(d, "patch.diff")))
    if rc != 0:
        print(i, "PATCH DOES NOT APPLY", out[-200:]); continue
    res = {}
    try:
        for p in props:
            t0 = time.time()
            rc2, o = sh("./check %s --tier quick" % p, cwd=V)
            vl = [l for l in o.splitlines() if l.startswith("VIOLATION")]
            how = "missed"
            rep = None
            if rc2 != 0 and vl:
                m = re.search(r"replay=(\S+)", vl[0])
                how = "proof-obligation/correspondence (no-failing-input-found)" if vl[0].endswith("no-failing-input-found") else "failing input found"
                if m and os.path.exists(m.group(1)):
                    r = json.load(open(m.group(1)))
                    rep = {"history": r.get("history"), "verdicts": (r.get("verdicts") or [])[:4], "fate": r.get("fate"),
                           "mismatch": (r.get("mismatch") or {}).get("why"), "no_longer_checks": r.get("no_longer_checks"),
                           "program": r.get("program"), "cases": r.get("cases"), "row": r.get("row")}
            res[p] = {"exit": rc2, "caught": rc2 != 0, "how": how, "violation_lines": vl[:3], "first_replay": rep, "wall_s": round(time.time() - t0, 1)}
    finally:
        sh("git -C %s checkout -- ." % REPO)
    json.dump(res, open(os.path.join(d, "result.json"), "w"), indent=1)
    line = "%s %s" % (i, " ".join("%s:%s" % (p, "CAUGHT[%s]" % r["how"].split()[0] if r["caught"] else "MISSED") for p, r in res.items()))
    print(line, flush=True)
    summary.append(line)
