#!/usr/bin/env python3
"""print the markdown table of DESIGN.md section 11 from seeded/*/result.json"""
import json, os, glob
SHORT = {
 "C01_1": "Splice drop takes the tail source from `drain_end_` (wrong after `next_back`)",
 "C01_2": "Drain drop: `src == dst` shortcut returns before `set_len`",
 "C01_3": "DrainFilter dropped half-way: wrong back-shift of the untested rest",
 "C01_4": "`swap_remove(len)` accepted (off-by-one in the bound check)",
 "C02_1": "Splice dropped after back steps re-exposes handed-out elements",
 "C02_2": "Drain drop forgets the unyielded part of the window (leak)",
 "C02_3": "`append` fast path adopts `other`'s buffer without detaching `other`",
 "C02_4": "`grow`: hand-written alloc+copy+free path copies too few bytes",
 "C03_1": "`grow` decides alloc-vs-realloc by `old_capacity == 0`",
 "C03_2": "`make_layout` rounds header+elements once instead of separately",
 "C04_1": "Drain guard moves the tail before dropping the rest of the window",
 "C04_2": "DrainFilter guard back-shifts to `vec.len()` instead of `new_len`",
 "C04_3": "`mini_vec![e; n]`: `set_len(idx+1)` before `e.clone()`",
 "C04_4": "`clear()` drops in place before lowering `len`",
 "C05_1": "DrainFilter::next republishes `len = pos` instead of `new_len`",
 "C05_2": "Drain shortens the vector lazily, `next_back` forgets to",
 "C06_1": "`append` early-out tests `other.is_default()` instead of `is_empty()`",
 "C06_2": "`reserve`: `total < capacity` instead of `<=` (allocates for 0 extra)",
 "C07_1": "`resize` reserves `new_len` instead of `new_len - len`",
 "C07_2": "`make_layout` rounding (capacity larger than the block)",
 "C08_1": "`shrink_to_fit` releases the block at `len == 0`, losing the alignment",
 "C08_2": "`with_alignment` lower bound uses `align_of::<*const ()>()` only",
 "C09_1": "`next_aligned` rewritten with wrapping arithmetic",
 "C09_2": "`reserve` doubles with `<<= 1` (never terminates / wraps)",
 "C10_1": "Splice guard exact-fit shortcut compares with `drain_end_`",
 "C10_2": "DrainFilter `panicked` flag reset moved below the early return",
 "C11_1": "`insert` grows before checking `index > len`",
 "C11_2": "`split_off`: `len == 0` fast path above the `at > len` check",
 "C12_1": "`clone` of a zero-capacity allocated vector shares storage",
 "C12_2": "IntoIter::clone does `set_len` before writing the clones",
 "C13_1": "marker field changed so that the handle takes `align_of::<T>()` (16/64/4096 bytes for over-aligned T)",
 "C13_2": "`#[repr(C, packed)]` on the handle (alignment 1)",
 "C14_1": "`as_mut_ptr` decides 'no pointer' from `capacity() == 0`",
 "C14_2": "one-argument `from_raw_part` steps back by the header size rounded to `align_of::<Header>()`, not `align_of::<T>()`",
 "C15_1": "`Hash` early-out for a never-allocated vector (no length prefix fed to the hasher)",
 "C15_2": "`==` identity fast path (same pointer, same length => true; wrong for NaN)",
 "C16_1": "`unsafe impl Sync for IntoIter<T>` bound weakened (`T: Send` suffices)",
 "C16_2": "`drain` signature no longer ties the `Drain` to the `&mut self` borrow",
 "C17_1": "Splice fill loop continues after the first `None`",
 "C17_2": "`extend` trusts an exact `size_hint` and writes unchecked",
 "C17_3": "`from_iter` pre-sizes by `size_hint().0` and writes unchecked",
 "C17_4": "Splice on a never-allocated vector trusts an exact size hint",
 "C18_1": "`grow` over-aligned path: dealloc / copy before the null check",
 "C18_2": "`shrink*` writes the new capacity into the old header before `realloc`",
 "C19_1": "`deserialize_in_place` reserves by the raw size hint",
 "C19_2": "`deserialize_in_place` keeps stale tail elements",
 "C02_7": "`From<&[T]>` bit-copies the slice instead of cloning each element",
 "C04_5": "Drain's guard moves the tail back BEFORE dropping the rest of the window",
 "C06_3": "`truncate`: `len > self_len` instead of `>=` (writes the length through the sentinel)",
 "C09_3": "`next_aligned` by wrapping mask arithmetic (round-up wraps to 0 near `usize::MAX`)",
 "C10_5": "Splice guard copies the tail from `drain_end_` instead of `remaining_pos_`",
 "C13_3": "marker field `[T; 0]` instead of `PhantomData<T>` (the handle inherits T's alignment)",
 "C14_3": "`as_mut_ptr` answers null when `capacity() == 0` (also for a vector that owns a block)",
 "C15_3": "`partial_cmp` answers `Some(Equal)` at once when both sides are the same object",
 "C18_3": "`grow` checks for a null result only when the capacity increases",
 "C19_3": "in-place visitor reserves `len - hint` instead of `hint - len`",
 "C01_5": "`extend_from_within`: an excluded start bound is treated as included",
 "C03_5": "`make_layout` rounds header + elements once (block smaller than the storage written)",
 "C05_5": "DrainFilter creation keeps the length for element types without drop glue",
 "C07_5": "`resize` reserves `new_len` instead of `new_len - len` (and loops `len..new_len`)",
 "C08_5": "Splice's regrow uses the temporary vector's alignment",
 "C11_5": "`insert` grows a full vector BEFORE rejecting an out-of-range index",
 "C12_5": "`clone` bit-copies when the element type has no drop glue (T::clone never runs)",
 "C16_3": "`unsafe impl<T: Send> Sync for IntoIter<T>` (was `T: Sync`)",
 "C17_5": "`extend` trusts an exact size hint: one reserve, then unchecked writes",
 "C19_4": "`Serialize` announces `capacity()` as the sequence length",
 "C09_4": "`next_capacity`: `checked_shl(1)` instead of `checked_mul(2)` (never overflows: `reserve` loops forever)",
 "C13_4": "an extra zero-sized field `_elem: [T; 0]` (the handle inherits T's alignment)",
 "C14_4": "`from_raw_parts` measures the header distance with `align_of::<Header>()`",
 "C15_4": "`Hash::hash` writes nothing for a never-allocated vector",
 "C16_4": "`unsafe impl<T: Sync> Send for Drain<'_, T>` (and Sync)",
 "C18_4": "`grow` checks for a null result only in the `realloc` branch (first block unchecked)",
 "C19_5": "in-place visitor truncates to `i + 1` when the input ends early (one stale element survives)",
 "C19_6": "fresh visitor: fill-then-`set_len` fast path leaks the elements read before an element error",
 "C02_5": "Splice: `remaining_pos_` field removed, tail start taken from `drain_end_`",
 "C02_6": "new `IntoIter::nth` override whose overshoot path forgets the remaining elements",
 "C03_3": "Splice guard keeps the cached tail POINTER across `grow` (read of the released block)",
 "C03_4": "Drop fast path for `cap == 0` deallocates with `Layout::new::<Header>()`",
 "C05_3": "DrainFilter creation skips the length cut when `!needs_drop::<T>()`",
 "C05_4": "`DrainFilter::next` republishes `set_len(pos)` on the keep path",
 "C07_3": "`make_layout` pads header + elements once (block too small for some (cap, align))",
 "C07_4": "`append` steals `other`'s buffer by `mem::swap` when the receiver is empty (storage moves, capacity changes)",
 "C08_3": "`append` swap fast path: an over-aligned empty receiver ends up with a naturally aligned block",
 "C08_4": "Splice guard grows through `with_capacity` + copy + swap (over-alignment lost)",
 "C10_3": "`size_hint` of Drain / Splice divides the byte distance by `align_of::<T>()`",
 "C10_4": "Splice: tail start taken from `drain_end_` (wrong after `next_back`)",
 "C11_3": "`splice`: end-bound check replaced by `checked_sub` placed after `set_len(start)`",
 "C11_4": "`shrink_to`: `len == capacity` early return swallows a target above the capacity",
 "C12_3": "`extend_from_slice` memcpy fast path for `!needs_drop` types (IntoIter::clone no longer calls `T::clone`)",
 "C12_4": "`Clone for MiniVec` allocates once and `set_len`s without the `len > 0` guard (writes the shared sentinel)",
}
def main():
    root = os.path.join(os.path.dirname(os.path.abspath(__file__)), "..", "seeded")
    print("| id | change (still compiles, pinned tests pass) | caught by | how | first replay |")
    print("|---|---|---|---|---|")
    n = c = 0
    for d in sorted(glob.glob(os.path.join(root, "*", ""))):
        i = os.path.basename(d[:-1])
        try:
            r = json.load(open(os.path.join(d, "result.json")))
        except Exception:
            print("| %s | %s | (not run yet) | | |" % (i, SHORT.get(i, "")))
            continue
        for pid, v in sorted(r.items()):
            n += 1
            c += 1 if v.get("caught") else 0
            fr = v.get("first_replay") or {}
            how = "failing input" if "failing input found" in (v.get("how") or "") else ("correspondence / obligation" if v.get("caught") else "MISSED")
            rep = fr.get("history") or fr.get("program") or fr.get("no_longer_checks") or fr.get("row") or ""
            if isinstance(rep, (dict, list)):
                rep = json.dumps(rep)
            rep = str(rep).replace("|", "\\|")
            if len(rep) > 90:
                rep = rep[:87] + "..."
            vd = fr.get("verdicts") or []
            vd = (", ".join(x.split("@")[0] for x in vd[:2])) if vd else (fr.get("mismatch") or "")
            print("| %s | %s | %s | %s%s | `%s` |" % (i, SHORT.get(i, ""), pid, how, (": " + vd.replace("|", "\\|")[:70]) if vd else "", rep))
    print()
    print("%d runs, %d caught." % (n, c))
main()
