#!/usr/bin/env python3
"""import_mut.py <srcdir> <name> <property> [--features F] [--rustc]
Copy a seeded mutation produced by a sub-agent into /verif/seeded/<name>/ and CONFIRM it in a
scratch worktree of /repo (removed afterwards): the demonstration passes on the clean tree; with the
patch the pinned suite passes and the demonstration fails.  For --rustc (C16) the demonstration is a
client program that rustc must reject on the clean crate and accept with the patch."""
import sys, os, subprocess, json, shutil, re
src, name, pid = sys.argv[1], sys.argv[2], sys.argv[3]
feat = sys.argv[sys.argv.index("--features") + 1] if "--features" in sys.argv else None
rustc_mode = "--rustc" in sys.argv
dst = "/verif/seeded/" + name
os.makedirs(dst, exist_ok=True)
for f in os.listdir(src):
    if os.path.isfile(os.path.join(src, f)):
        shutil.copy(os.path.join(src, f), os.path.join(dst, f))
env = dict(os.environ, CARGO_NET_OFFLINE="true")
def sh(cmd, cwd=None, timeout=1800):
    p = subprocess.run(cmd, shell=True, cwd=cwd, env=env, stdout=subprocess.PIPE, stderr=subprocess.STDOUT, text=True, timeout=timeout)
    return p.returncode, p.stdout
wt = "/tmp/val_" + name
sh("git -C /repo worktree remove --force %s" % wt)
sh("git -C /repo worktree add -q --detach %s HEAD" % wt)
res = {"property": pid, "id": name}
fflag = (" --features " + feat) if feat else ""
try:
    if rustc_mode:
        def verdict():
            rc, o = sh("rustc --edition 2018 --crate-type rlib --crate-name minivec src/lib.rs -o %s/libminivec.rlib -A warnings" % wt, cwd=wt)
            if rc != 0:
                return "crate does not build: " + o[-300:]
            rc, o = sh("rustc --edition 2021 --extern minivec=%s/libminivec.rlib --emit=metadata -o %s/out.rmeta %s -A warnings --error-format=short" % (wt, wt, os.path.join(dst, "demo_client.rs")), cwd=wt)
            return "accepted" if rc == 0 else "rejected " + " ".join(sorted(set(re.findall(r"E\d{4}", o))))
        res["client_on_clean_crate"] = verdict()
        rc, o = sh("git apply %s" % os.path.join(dst, "patch.diff"), cwd=wt)
        res["patch_applies"] = rc == 0
        res["client_with_patch"] = verdict()
        rc, o = sh("cargo test --offline --no-fail-fast 2>&1 | grep -E '^test result' ", cwd=wt)
        res["pinned_suite_with_patch"] = "passes" if o.strip() and all(l.startswith("test result: ok") for l in o.strip().splitlines()) else "FAILS"
        res["confirmed"] = res["client_on_clean_crate"].startswith("rejected") and res["client_with_patch"] == "accepted" and res["pinned_suite_with_patch"] == "passes"
    else:
        shutil.copy(os.path.join(dst, "demo.rs"), os.path.join(wt, "tests", "demo_seed.rs"))
        rc, o = sh("cargo test --offline%s --test demo_seed -- --test-threads=1 2>&1 | tail -20" % fflag, cwd=wt)
        res["demo_on_clean_tree"] = "passes" if re.search(r"test result: ok", o) and "FAILED" not in o else "FAILS: " + o[-400:]
        rc, o = sh("git apply %s" % os.path.join(dst, "patch.diff"), cwd=wt)
        res["patch_applies"] = rc == 0
        # the pinned suite without the demo
        os.rename(os.path.join(wt, "tests", "demo_seed.rs"), os.path.join(wt, "demo_seed.rs.off"))
        rc, o = sh("cargo test --offline --no-fail-fast 2>&1 | grep -E '^test result' ", cwd=wt)
        ok = o.strip() and all(l.startswith("test result: ok") for l in o.strip().splitlines())
        if feat:
            rc, o2 = sh("cargo test --offline --no-fail-fast%s 2>&1 | grep -E '^test result' " % fflag, cwd=wt)
            ok = ok and o2.strip() and all(l.startswith("test result: ok") for l in o2.strip().splitlines())
        res["pinned_suite_with_patch"] = "passes" if ok else "FAILS"
        os.rename(os.path.join(wt, "demo_seed.rs.off"), os.path.join(wt, "tests", "demo_seed.rs"))
        rc, o = sh("cargo test --offline%s --test demo_seed -- --test-threads=1 2>&1 | tail -30" % fflag, cwd=wt)
        res["demo_with_patch"] = "fails" if (rc != 0 or "FAILED" in o or not re.search(r"test result: ok", o)) else "passes (?)"
        res["confirmed"] = res["demo_on_clean_tree"] == "passes" and res["pinned_suite_with_patch"] == "passes" and res["demo_with_patch"] == "fails"
finally:
    sh("git -C /repo worktree remove --force %s" % wt)
    shutil.rmtree(wt, ignore_errors=True)
res["what_it_needs"] = open(os.path.join(dst, "meta.txt")).read()[:2000] if os.path.exists(os.path.join(dst, "meta.txt")) else ""
res["ran"] = ["scratch worktree /tmp/val_%s of /repo HEAD (removed afterwards): demonstration on the clean tree; git apply patch.diff; pinned suite (cargo test --offline --no-fail-fast%s); demonstration again" % (name, " and with" + fflag if feat else "")]
old = {}
try:
    old = json.load(open(os.path.join(dst, "meta.json")))
except Exception:
    pass
old.update(res)
json.dump(old, open(os.path.join(dst, "meta.json"), "w"), indent=1)
print(name, {k: v for k, v in res.items() if k not in ("what_it_needs", "ran")})
