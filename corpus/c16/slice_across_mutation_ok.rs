// expect: pass
// rule: slice kept beyond the vector's next mutation (legitimate twin)
use minivec::MiniVec;
fn main() {
  let mut v: MiniVec<i32> = minivec::mini_vec![1, 2, 3];
  let s = v.as_slice();
  println!("{}", s[0]);
  v.push(4);
}
