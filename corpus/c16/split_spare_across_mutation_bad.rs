// expect: fail E0499
// rule: split_at_spare_mut views kept beyond the vector's next mutation
use minivec::MiniVec;
fn main() {
  let mut v: MiniVec<i32> = MiniVec::with_capacity(4);
  let (a, b) = v.split_at_spare_mut();
  v.reserve(10);
  let _ = (a.len(), b.len());
}
