// expect: fail E0597
// rule: leaking a vector of short-lived borrows to a longer lifetime
use minivec::MiniVec;
fn main() {
  let r: &'static mut [&str];
  {
    let s = String::from("short");
    let mut v: MiniVec<&str> = MiniVec::new();
    v.push(&s);
    r = MiniVec::leak(v);
  }
  println!("{}", r.len());
}
