// expect: fail E0277
// rule: moving a Drain of non-Send elements to another thread
use minivec::MiniVec;
fn main() {
  let mut v: MiniVec<std::rc::Rc<i32>> = MiniVec::new();
  let d = v.drain(..);
  std::thread::scope(|s| {
    s.spawn(move || drop(d));
  });
}
