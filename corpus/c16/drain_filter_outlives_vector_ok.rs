// expect: pass
// rule: DrainFilter kept beyond the vector's end of life (legitimate twin)
use minivec::MiniVec;
fn main() {
  let mut v: MiniVec<i32> = minivec::mini_vec![1, 2, 3];
  let mut f = v.drain_filter(|x| *x > 1);
  let _ = f.next();
}
