// expect: pass
// rule: moving a Splice over Sync-but-not-Send elements (MutexGuard) to another thread (legitimate twin: used on the thread that locked)
use minivec::MiniVec;
use std::sync::{Mutex, MutexGuard};
static M: Mutex<i32> = Mutex::new(0);
fn main() {
  let mut v: MiniVec<MutexGuard<'static, i32>> = MiniVec::new();
  v.push(M.lock().unwrap());
  let sp = v.splice(.., std::iter::empty());
  drop(sp);
}
