// expect: fail E0277
// rule: sharing a DrainFilter over Send-but-not-Sync elements (Cell) between threads
use minivec::MiniVec;
use std::cell::Cell;
fn main() {
  let mut v: MiniVec<Cell<i32>> = MiniVec::new();
  v.push(Cell::new(1));
  let f = v.drain_filter(|_| true);
  let r = &f;
  std::thread::scope(|s| {
    s.spawn(move || { let _ = r.size_hint(); });
  });
}
