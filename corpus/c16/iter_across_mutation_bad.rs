// expect: fail E0502
// rule: borrowing iterator kept beyond the vector's next mutation
use minivec::MiniVec;
fn main() {
  let mut v: MiniVec<i32> = minivec::mini_vec![1, 2, 3];
  let mut it = v.iter();
  v.insert(0, 7);
  let _ = it.next();
}
