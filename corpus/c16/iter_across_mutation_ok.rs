// expect: pass
// rule: borrowing iterator kept beyond the vector's next mutation (legitimate twin)
use minivec::MiniVec;
fn main() {
  let mut v: MiniVec<i32> = minivec::mini_vec![1, 2, 3];
  let mut it = v.iter();
  let _ = it.next();
  v.insert(0, 7);
}
