// expect: pass
// rule: using the vector after into_iter moved it (legitimate twin)
use minivec::MiniVec;
fn main() {
  let v: MiniVec<i32> = minivec::mini_vec![1];
  let n = v.len();
  let it = v.into_iter();
  drop(it);
  let _ = n;
}
