// expect: fail E0277
// rule: sharing an IntoIter of non-Sync elements between threads
use minivec::MiniVec;
fn main() {
  let v: MiniVec<std::cell::Cell<i32>> = MiniVec::new();
  let it = v.into_iter();
  std::thread::scope(|s| {
    s.spawn(|| it.as_slice().len());
    s.spawn(|| it.as_slice().len());
  });
}
