// expect: fail E0597
// rule: DrainFilter kept beyond the vector's end of life
use minivec::MiniVec;
fn main() {
  let mut f;
  {
    let mut v: MiniVec<i32> = minivec::mini_vec![1, 2, 3];
    f = v.drain_filter(|x| *x > 1);
  }
  let _ = f.next();
}
