// expect: pass
// rule: element reference kept beyond the vector's next mutation (legitimate twin)
use minivec::MiniVec;
fn main() {
  let mut v: MiniVec<String> = minivec::mini_vec![String::from("a")];
  let r = &v[0];
  println!("{}", r);
  v.clear();
}
