// expect: pass
// rule: spare-capacity view kept beyond the vector's next mutation (legitimate twin)
use minivec::MiniVec;
fn main() {
  let mut v: MiniVec<i32> = MiniVec::with_capacity(4);
  let sp = v.spare_capacity_mut();
  let _ = sp.len();
  v.push(1);
}
