// expect: pass
// rule: Drain kept beyond the vector's end of life (legitimate twin)
use minivec::MiniVec;
fn main() {
  let mut v: MiniVec<i32> = minivec::mini_vec![1, 2, 3];
  let mut d = v.drain(..);
  let _ = d.next();
}
