// expect: fail E0277
// rule: sharing a MiniVec of non-Sync elements between threads
use minivec::MiniVec;
fn main() {
  let v: MiniVec<std::cell::Cell<i32>> = MiniVec::new();
  std::thread::scope(|s| {
    s.spawn(|| v.len());
  });
}
