// expect: pass
// rule: vector used while a Splice taken from it is alive (legitimate twin)
use minivec::MiniVec;
fn main() {
  let mut v: MiniVec<i32> = minivec::mini_vec![1, 2, 3];
  {
    let mut s = v.splice(0..1, vec![9]);
    let _ = s.next();
  }
  let n = v.len();
  let _ = n;
}
