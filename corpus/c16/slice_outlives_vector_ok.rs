// expect: pass
// rule: slice kept beyond the vector's end of life (legitimate twin)
use minivec::MiniVec;
fn main() {
  let v: MiniVec<i32> = minivec::mini_vec![1, 2, 3];
  let s: &[i32] = v.as_slice();
  println!("{}", s.len());
}
