// expect: fail E0277
// rule: moving a Drain of Sync-but-not-Send elements (MutexGuard) to another thread
use minivec::MiniVec;
use std::sync::{Mutex, MutexGuard};
static M: Mutex<i32> = Mutex::new(0);
fn main() {
  let mut v: MiniVec<MutexGuard<'static, i32>> = MiniVec::new();
  v.push(M.lock().unwrap());
  let d = v.drain(..);
  std::thread::scope(|s| {
    s.spawn(move || drop(d));
  });
}
