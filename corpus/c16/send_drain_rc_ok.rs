// expect: pass
// rule: moving a Drain of non-Send elements to another thread (legitimate twin)
use minivec::MiniVec;
fn main() {
  let mut v: MiniVec<std::rc::Rc<i32>> = MiniVec::new();
  let d = v.drain(..);
  drop(d);
}
