// expect: pass
// rule: sharing a DrainFilter over Send-but-not-Sync elements (Cell) between threads (legitimate twin: one thread)
use minivec::MiniVec;
use std::cell::Cell;
fn main() {
  let mut v: MiniVec<Cell<i32>> = MiniVec::new();
  v.push(Cell::new(1));
  let f = v.drain_filter(|_| true);
  let r = &f;
  let _ = r.size_hint();
}
