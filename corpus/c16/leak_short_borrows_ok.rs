// expect: pass
// rule: leaking a vector of short-lived borrows to a longer lifetime (legitimate twin)
use minivec::MiniVec;
fn main() {
  let s: &'static str = "long";
  let mut v: MiniVec<&'static str> = MiniVec::new();
  v.push(s);
  let r: &'static mut [&'static str] = MiniVec::leak(v);
  println!("{}", r.len());
}
