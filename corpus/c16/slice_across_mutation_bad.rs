// expect: fail E0502
// rule: slice kept beyond the vector's next mutation
use minivec::MiniVec;
fn main() {
  let mut v: MiniVec<i32> = minivec::mini_vec![1, 2, 3];
  let s = v.as_slice();
  v.push(4);
  println!("{}", s[0]);
}
