// expect: pass
// rule: sharing a MiniVec of non-Sync elements between threads (legitimate twin)
use minivec::MiniVec;
fn main() {
  let v: MiniVec<std::sync::atomic::AtomicI32> = MiniVec::new();
  std::thread::scope(|s| {
    s.spawn(|| v.len());
  });
}
