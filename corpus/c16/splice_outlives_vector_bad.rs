// expect: fail E0597
// rule: Splice kept beyond the vector's end of life
use minivec::MiniVec;
fn main() {
  let mut s;
  {
    let mut v: MiniVec<i32> = minivec::mini_vec![1, 2, 3];
    s = v.splice(0..1, vec![7]);
  }
  let _ = s.next();
}
