// expect: fail E0597
// rule: slice kept beyond the vector's end of life
use minivec::MiniVec;
fn main() {
  let s: &[i32];
  {
    let v: MiniVec<i32> = minivec::mini_vec![1, 2, 3];
    s = v.as_slice();
  }
  println!("{}", s.len());
}
