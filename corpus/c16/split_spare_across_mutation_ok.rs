// expect: pass
// rule: split_at_spare_mut views kept beyond the vector's next mutation (legitimate twin)
use minivec::MiniVec;
fn main() {
  let mut v: MiniVec<i32> = MiniVec::with_capacity(4);
  let (a, b) = v.split_at_spare_mut();
  let _ = (a.len(), b.len());
  v.reserve(10);
}
