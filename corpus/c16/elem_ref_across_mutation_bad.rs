// expect: fail E0502
// rule: element reference kept beyond the vector's next mutation
use minivec::MiniVec;
fn main() {
  let mut v: MiniVec<String> = minivec::mini_vec![String::from("a")];
  let r = &v[0];
  v.clear();
  println!("{}", r);
}
