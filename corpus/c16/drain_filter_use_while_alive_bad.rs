// expect: fail E0499
// rule: vector used while a DrainFilter taken from it is alive
use minivec::MiniVec;
fn main() {
  let mut v: MiniVec<i32> = minivec::mini_vec![1, 2, 3];
  let mut f = v.drain_filter(|x| *x > 1);
  v.clear();
  let _ = f.next();
}
