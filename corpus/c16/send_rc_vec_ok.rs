// expect: pass
// rule: moving a MiniVec of non-Send elements to another thread (legitimate twin)
use minivec::MiniVec;
fn main() {
  let v: MiniVec<std::sync::Arc<i32>> = MiniVec::new();
  std::thread::spawn(move || drop(v)).join().unwrap();
}
