// expect: pass
// rule: shortening an element lifetime through MiniVec is fine (covariance)
use minivec::MiniVec;
fn shorten<'a>(v: MiniVec<&'static str>) -> MiniVec<&'a str> {
  v
}
fn main() {
  let _ = shorten(MiniVec::new());
}
