// expect: fail lifetime
// rule: lengthening an element lifetime through MiniVec
use minivec::MiniVec;
fn lengthen<'a>(v: MiniVec<&'a str>) -> MiniVec<&'static str> {
  v
}
fn main() {
  let _ = lengthen(MiniVec::new());
}
