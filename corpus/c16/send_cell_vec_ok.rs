// expect: pass
// rule: Send needs only T: Send (a MiniVec of Send-but-not-Sync elements may be moved to a thread)
use minivec::MiniVec;
fn main() {
  let v: MiniVec<std::cell::Cell<i32>> = MiniVec::new();
  std::thread::spawn(move || drop(v)).join().unwrap();
}
