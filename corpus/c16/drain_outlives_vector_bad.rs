// expect: fail E0597
// rule: Drain kept beyond the vector's end of life
use minivec::MiniVec;
fn main() {
  let mut d;
  {
    let mut v: MiniVec<i32> = minivec::mini_vec![1, 2, 3];
    d = v.drain(..);
  }
  let _ = d.next();
}
