// expect: fail E0277
// rule: moving a MiniVec of non-Send elements to another thread
use minivec::MiniVec;
fn main() {
  let v: MiniVec<std::rc::Rc<i32>> = MiniVec::new();
  std::thread::spawn(move || drop(v)).join().unwrap();
}
