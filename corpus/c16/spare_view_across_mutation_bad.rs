// expect: fail E0499
// rule: spare-capacity view kept beyond the vector's next mutation
use minivec::MiniVec;
fn main() {
  let mut v: MiniVec<i32> = MiniVec::with_capacity(4);
  let sp = v.spare_capacity_mut();
  v.push(1);
  let _ = sp.len();
}
