// expect: fail E0502
// rule: vector used while a Splice taken from it is alive
use minivec::MiniVec;
fn main() {
  let mut v: MiniVec<i32> = minivec::mini_vec![1, 2, 3];
  let mut s = v.splice(0..1, vec![9]);
  let n = v.len();
  let _ = s.next();
  let _ = n;
}
