// expect: pass
// rule: Splice kept beyond the vector's end of life (legitimate twin)
use minivec::MiniVec;
fn main() {
  let mut v: MiniVec<i32> = minivec::mini_vec![1, 2, 3];
  let mut s = v.splice(0..1, vec![7]);
  let _ = s.next();
}
