// expect: fail E0277
// rule: moving an IntoIter of non-Send elements to another thread
use minivec::MiniVec;
fn main() {
  let v: MiniVec<std::rc::Rc<i32>> = MiniVec::new();
  let it = v.into_iter();
  std::thread::spawn(move || drop(it)).join().unwrap();
}
