// expect: fail E0382
// rule: using the vector after into_iter moved it
use minivec::MiniVec;
fn main() {
  let v: MiniVec<i32> = minivec::mini_vec![1];
  let it = v.into_iter();
  let n = v.len();
  drop(it);
  let _ = n;
}
