// expect: pass
// rule: sharing an IntoIter of non-Sync elements between threads (legitimate twin)
use minivec::MiniVec;
fn main() {
  let v: MiniVec<std::sync::atomic::AtomicI32> = MiniVec::new();
  let it = v.into_iter();
  std::thread::scope(|s| {
    s.spawn(|| it.as_slice().len());
    s.spawn(|| it.as_slice().len());
  });
}
