// expect: pass
// rule: sharing a Drain of Send-but-not-Sync elements (Cell) between threads (legitimate twin: one thread)
use minivec::MiniVec;
use std::cell::Cell;
fn main() {
  let mut v: MiniVec<Cell<i32>> = MiniVec::new();
  v.push(Cell::new(1));
  let d = v.drain(..);
  let r = &d;
  let _ = r.size_hint();
}
