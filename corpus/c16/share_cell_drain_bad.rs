// expect: fail E0277
// rule: sharing a Drain of Send-but-not-Sync elements (Cell) between threads
use minivec::MiniVec;
use std::cell::Cell;
fn main() {
  let mut v: MiniVec<Cell<i32>> = MiniVec::new();
  v.push(Cell::new(1));
  let d = v.drain(..);
  let r = &d;
  std::thread::scope(|s| {
    s.spawn(move || { let _ = r.size_hint(); });
  });
}
