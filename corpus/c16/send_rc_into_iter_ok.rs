// expect: pass
// rule: moving an IntoIter of non-Send elements to another thread (legitimate twin)
use minivec::MiniVec;
fn main() {
  let v: MiniVec<std::sync::Arc<i32>> = MiniVec::new();
  let it = v.into_iter();
  std::thread::spawn(move || drop(it)).join().unwrap();
}
