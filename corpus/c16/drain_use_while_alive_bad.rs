// expect: fail E0499
// rule: vector used while a Drain taken from it is alive
use minivec::MiniVec;
fn main() {
  let mut v: MiniVec<i32> = minivec::mini_vec![1, 2, 3];
  let mut d = v.drain(..);
  v.push(4);
  let _ = d.next();
}
