// expect: fail E0499
// rule: two live mutable views of the same vector
use minivec::MiniVec;
fn main() {
  let mut v: MiniVec<i32> = minivec::mini_vec![1, 2, 3];
  let a = v.as_mut_slice();
  let b = v.as_mut_slice();
  a[0] = 1;
  b[0] = 2;
}
