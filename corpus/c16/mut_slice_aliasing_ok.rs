// expect: pass
// rule: two live mutable views of the same vector (legitimate twin)
use minivec::MiniVec;
fn main() {
  let mut v: MiniVec<i32> = minivec::mini_vec![1, 2, 3];
  let a = v.as_mut_slice();
  a[0] = 1;
  let b = v.as_mut_slice();
  b[0] = 2;
}
