#!/bin/sh
# Build the framework from files on disk only (offline).  Idempotent.
set -e
cd "$(dirname "$0")"
export CARGO_NET_OFFLINE=true
echo "[setup] rs2v"
(cd rs2v && cargo build --offline 2>&1 | tail -2)
echo "[setup] translate + coq + harness + model driver"
python3 - <<'PY'
import sys, os
sys.path.insert(0, "vlib")
import coqstage, hrun, model
r = coqstage.translate()
print(r["log"])
if r["ok"]:
    targets = [l.strip()[:-2] + ".vo" for l in open("coq/_CoqProject") if l.strip().endswith(".v")]
    b = coqstage.build(targets, timeout=3000)
    print("coq build ok (%ss)" % b.get("wall_s") if b["ok"] else "coq build FAILED:\n" + b["log"][-3000:])
for prof in ("d", "r"):
    b, log = hrun.build(prof)
    print("harness", prof, "ok" if b else "FAILED:\n" + log[-2000:])
mb, info = model.build()
print("model driver", "ok" if mb else "FAILED")
PY
echo "[setup] done"
