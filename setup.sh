#!/bin/sh
# Build the framework from files on disk only (offline).  Idempotent.
set -e
cd "$(dirname "$0")"
export CARGO_NET_OFFLINE=true
echo "[setup] rs2v"
(cd rs2v && cargo build --offline 2>&1 | tail -2)
if [ -f harness/Cargo.toml ]; then
  echo "[setup] harness"
  python3 vlib/setup_harness.py || true
fi
echo "[setup] translate + coq"
python3 - <<'PY'
import sys, os
sys.path.insert(0, "vlib")
import coqstage
r = coqstage.translate()
print(r["log"])
if not r["ok"]:
    sys.exit(0)   # the checks will report it
import re
targets = [l.strip()[:-2] + ".vo" for l in open("coq/_CoqProject") if l.strip().endswith(".v")]
b = coqstage.build(targets, timeout=3000)
print("coq build ok" if b["ok"] else "coq build FAILED:\n" + b["log"][-3000:])
PY
echo "[setup] done"
