import sys, os, json, time, argparse, traceback
from common import *
import coqstage, props

def write_evidence(pid, tier, seed, coverage, assumptions, wall, violations):
    os.makedirs(EVID, exist_ok=True)
    ev = {"property_id": pid, "tier": tier, "seed": seed, "level": "proof", "coverage": coverage,
          "assumptions": assumptions, "wall_s": round(wall, 2), "violations": violations}
    tmp = os.path.join(EVID, pid + ".json.tmp%d" % os.getpid())
    json.dump(ev, open(tmp, "w"), indent=1)
    os.replace(tmp, os.path.join(EVID, pid + ".json"))

def write_replay(pid, tag, obj):
    os.makedirs(REPLAYS, exist_ok=True)
    p = os.path.join(REPLAYS, "%s_%s.json" % (pid, tag))
    json.dump(obj, open(p, "w"), indent=1)
    return p

def load_known():
    try:
        return json.load(open(os.path.join(VERIF, "known_findings.json")))
    except OSError:
        return {"findings": [], "fixed": []}

def main(argv):
    ap = argparse.ArgumentParser()
    ap.add_argument("pid")
    ap.add_argument("--tier", default=os.environ.get("VERIF_TIER", "quick"), choices=["quick", "thorough"])
    ap.add_argument("--replay", default=None)
    a = ap.parse_args(argv)
    pid = a.pid
    if pid not in props.PROPS:
        print("unknown or unclaimed property %s" % pid)
        return 2
    try:
        seed = int(os.environ.get("VERIF_SEED", "20260930"))
    except ValueError:
        seed = 20260930
    t0 = time.time()
    P = props.PROPS[pid]
    ctx = props.Ctx(pid, a.tier, seed, a.replay)
    try:
        return props.decide(ctx, P, t0, write_evidence, write_replay, load_known())
    except Exception:
        tb = traceback.format_exc()
        log(tb)
        rp = write_replay(pid, "internal_error", {"property": pid, "error": tb})
        write_evidence(pid, a.tier, seed, {"obligations": 1, "discharged": 0, "checker_cmd": "n/a", "trusted_base": [],
                                           "explanation": "internal error of the check"}, [], time.time() - t0, 1)
        print("VIOLATION property=%s replay=%s no-failing-input-found" % (pid, rp))
        return 1
