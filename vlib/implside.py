"""implementation side: harness runs, correspondence, monitors (grows with the harness)"""
from common import *

def match_known(pid, v, known):
    for k in known.get("findings", []):
        if k.get("property") == pid and k.get("class") and k["class"] == v.get("class"):
            return k.get("what", k["class"])
    return None

def run(ctx, P, cs):
    return {"violations": [], "coverage": {}}
