"""implementation side: harness runs, monitors, correspondence with the model (DESIGN.md 3.6/3.7)"""
import os, re, json, time
from common import *
from common import run as sh_run
import hrun

# which monitor verdicts speak about which property (prefix match)
OWN = ["dead_exposed", "dup_exposed", "double_drop", "garbage_", "handed_out_still_exposed"]
ALLOCM = ["layout_mismatch", "double_free", "redzone", "wild_ptr", "null_with_len"]
RELEVANT = {
    "C01": ["vec_mismatch", "vec_ret_mismatch", "macro_repeat"],
    "C02": OWN + ["leak_elem", "leak_block"],
    "C03": ALLOCM + ["cap_exceeds_block", "leak_block", "garbage_"],   # garbage_*: poison read back = a read outside every live block
    "C04": OWN,            # its conclusion is about the elements the vector exposes / destroys
    "C05": OWN,
    "C06": OWN + ALLOCM + ["crash", "vec_mismatch", "iter_protocol", "sentinel_alloc", "storage_for_nothing"],
    "C07": ["capacity_contract", "len_gt_cap", "cap_exceeds_block", "spare_view_wrong", "storage_moved"],
    "C08": ["lost_overalignment", "misaligned", "walign_"],
    "C09": ["capacity_contract", "cap_exceeds_block", "len_gt_cap", "hang", "profile_disagreement", "crash"],
    "C10": ["iter_protocol", "garbage_yielded", "crash", "vec_mismatch"],
    "C11": ["accepted_out_of_range", "rejected_in_range", "changed_by_rejected_call"],
    "C12": OWN + ["double_free", "iter_protocol", "garbage_yielded", "crash", "clone_shares_storage", "clone_not_called"],
    "C14": ["raw_roundtrip_moved", "crash", "len_gt_cap", "cap_exceeds_block"] + OWN,
    "C15": ["slice_semantics"],
    "C17": OWN + ALLOCM + ["crash", "leak_block"],
    "C18": ["crash", "header_changed_before_failure"],
}

def relevant(pid, mon):
    return any(mon.startswith(p) for p in RELEVANT.get(pid, []))

def load_corpus():
    out = []
    d = os.path.join(VERIF, "corpus")
    for f in sorted(os.listdir(d)):
        if f.endswith(".hist"):
            for l in open(os.path.join(d, f)):
                l = l.strip()
                if l.startswith("H "):
                    out.append(l)
    return out

def is_leak_free_stream(line):
    """no panic script, no forget, no leak op: every element must be destroyed or handed out"""
    body = line.split("::", 1)[1]
    hdr = line.split("::", 1)[0]
    if " dp=" in hdr or " cp=" in hdr or " af=" in hdr:
        return False
    for op in body.split(";"):
        t = op.split()
        if not t:
            continue
        if t[0] in ("forget", "leak"):
            return False
        if any("P" in x for x in t[1:] if x.isalpha()):
            return False
    return True

ILL_SCRIPT = re.compile(r"^(h\d+:.*|[SNP]*N[SNP]*S[SNP]*)$")     # a lying size hint, or a yield after None
PRED_OPS = {"retain", "dedupby", "dedupkey", "dfilter", "rmitem", "resizewith"}
ITER_OPS = {"drain", "splice", "dfilter", "intoiter", "next", "nextb", "nth", "nthb", "count", "last", "hint",
            "asslice", "cloneit", "dropit", "forget"}

CLONE_OPS = {"clone", "cloneit", "extslice", "extwithin", "resize", "fromslice", "frommut", "macrep", "maclist", "fromstr"}

def user_panic_line(line, toks, p):
    """did USER code panic in this operation?  (C04 is about panics in callbacks, Clone / PartialEq
    implementations, iterators and destructors -- not about the library rejecting an argument, which is
    C11's subject.)  toks: the operation's tokens; p: its parsed trace line"""
    if p is None or p["out"] != "panic":
        return False
    hdr = hrun.header(line)
    if any("P" in x for x in toks[1:] if x.isalpha()):
        return True                                     # a scripted panic in a callback / iterator
    if "dp" in hdr:
        dp = {x for x in hdr["dp"].split(",") if x}
        if dp & set(re.findall(r"(?<![\w>])d(\d+)", p["elems"] or "")):
            return True                                 # a destructor scripted to panic ran here
    if "cp" in hdr and toks and toks[0] in CLONE_OPS:
        return True                                     # a Clone scripted to panic may have run here
    return False

def premise_ok(pid, line, parsed, k):
    """a monitor verdict at operation index k speaks about property pid only if the situation the property is
    about has occurred by then: C04 a panic in user code, C05 a forgotten iterator, C12 a clone, C14 a raw
    round trip, C17 an ill-behaved callback, C10 the failing operation is an iterator operation"""
    body = [o.split() for o in line.split("::", 1)[1].split(";") if o.split()]
    upto = body[:k + 1]
    if pid == "C04":
        byk = {p["k"]: p for p in parsed}
        if any(user_panic_line(line, t, byk.get(j)) for j, t in enumerate(upto)):
            return True
        # the operation did not come back at all (abort of a double panic, crash): it counts when the history
        # scripts panics in user code
        hdr = line.split("::", 1)[0]
        scripted = " dp=" in hdr or " cp=" in hdr or any("P" in x for t in upto for x in t[1:] if x.isalpha())
        return k >= len(parsed) and scripted
    if pid == "C05":
        return any(t[0] == "forget" for t in upto)
    if pid == "C12":
        return any(t[0] in ("clone", "cloneit") for t in upto)
    if pid == "C14":
        return any(t[0] == "rawrt" for t in upto)
    if pid == "C17":
        return any(t[0] in PRED_OPS or any(ILL_SCRIPT.match(x) for x in t[1:]) for t in upto)
    if pid == "C10":
        return k < len(body) and body[k][0] in ITER_OPS or (k < len(body) and body[k][0] == "end")
    if pid == "C06":
        # about vectors that have never allocated: nothing has been allocated in this history so far ...
        if not any(re.search(r"(^|,)[ar]\d", p["alloc"]) for p in parsed if p["k"] < k):
            return True
        # ... or the operation works on a vector that has no storage (or does not exist yet) at that moment
        if k < len(body):
            prev = [p for p in parsed if p["k"] < k]
            st = prev[-1]["state"] if prev else ""
            for x in body[k][1:3]:
                if x.isdigit():
                    m = re.search(r"(^| )v%s=\d+,\d+,([^,]+)," % x, st or "")
                    if (m and m.group(2) == "nul") or (not m and body[k][0] not in ITER_OPS):
                        return True
        return False
    return True

def judge(pid, line, res, expected_abort=False):
    """verdicts of the implementation-side monitors for one executed history"""
    v = []
    h = hrun.header(line)
    parsed = [p for p in (hrun.parse_line(l) for l in res["lines"]) if p]
    if res["fate"] != "done" and not (expected_abort and res["fate"] == "signal 6"):
        kind = "hang" if res["fate"] == "timeout" else "crash"
        # the operation that did not come back is the one after the last line printed
        kdead = (parsed[-1]["k"] + 1) if parsed else 0
        if relevant(pid, kind) and premise_ok(pid, line, parsed, kdead):
            v.append("%s:%s" % (kind, res["fate"]))
    # C18: at the moment a resize request is refused the block's header must still describe the old block
    # (ALLOCFAIL f<size>:<align>:h<len>/<cap>/<align> is printed by the checking allocator before it returns
    # null; the length and capacity the implementation itself reported on the line before are the reference)
    if relevant(pid, "header_changed_before_failure"):
        body = [o.split() for o in line.split("::", 1)[1].split(";") if o.split()]
        kdead = (parsed[-1]["k"] + 1) if parsed else 0
        for l in res.get("raw_lines", []):
            mm = re.match(r"ALLOCFAIL f\d+:\d+:h(\d+)/(\d+)/(\d+)", l)
            # only for operations that make a single request (a bulk operation grows several times: its header
            # legitimately changes between its requests; those are compared with the model's header instead)
            if mm and parsed and kdead < len(body) and len(body[kdead]) > 1 and body[kdead][1].isdigit() and \
               body[kdead][0] in ("reserve", "reservex", "shrinkfit", "shrinkto", "push", "insert"):
                st = re.search(r"(^| )v%s=(\d+),(\d+)," % body[kdead][1], parsed[-1]["state"] or "")
                if st and (st.group(2), st.group(3)) != (mm.group(1), mm.group(2)):
                    v.append("header_changed_before_failure:v%s:len%s>%s,cap%s>%s@%d:%s" %
                             (body[kdead][1], st.group(2), mm.group(1), st.group(3), mm.group(2), kdead, body[kdead][0]))
                break
    last = None
    for p in parsed:
        last = p
        for m in p["mon"]:
            if relevant(pid, m) and premise_ok(pid, line, parsed, p["k"]):
                v.append("%s@%d:%s" % (m, p["k"], p["op"]))
    if last and last["op"] == "end" and res["fate"] == "done" and is_leak_free_stream(line):
        led, _, blocks = last["ret"].partition(";")
        kend = len([o for o in line.split("::", 1)[1].split(";") if o.split()])
        if "L" in led and relevant(pid, "leak_elem") and premise_ok(pid, line, parsed, kend):
            v.append("leak_elem:" + led)
        if blocks not in ("[]", "") and relevant(pid, "leak_block") and premise_ok(pid, line, parsed, kend):
            v.append("leak_block:" + blocks)
    return v

# ---------------------------------------------------------------- known findings

def next_aligned(n, a):
    return n if n % a == 0 else n + (a - n % a)

ALIGN_OF = {"1x1": 1, "2x2": 2, "3x1": 1, "8x8": 8, "24x8": 8, "16x16": 16, "64x64": 64, "2048x8": 8, "u8": 1}

OUTCOME_OPS = {"C01": None, "C11": None, "C14": {"rawrt"}}

def finding_class(pid, line):
    """classes of recorded known findings a history falls into (computed from the history text)"""
    cls = hrun.header(line).get("cls", "8x8").rstrip("c")
    ea = ALIGN_OF.get(cls, 8)
    out = set()
    body = line.split("::", 1)[1]
    aligned = {}
    for op in body.split(";"):
        t = op.split()
        if not t:
            continue
        if t[0] == "walign" and len(t) > 3 and t[3].isdigit():
            aligned[t[1]] = int(t[3])
        if t[0] in ("splitoff", "drainvec") and len(t) > 2 and t[1] in aligned:
            aligned[t[2]] = aligned[t[1]]
        if t[0] == "rawrt" and t[1] in aligned:
            a = aligned[t[1]]
            if a > 0 and next_aligned(24, a) != next_aligned(24, max(ea, 1)):
                out.add("raw_roundtrip_header_distance")
    return out

def match_known(pid, v, known):
    for k in known.get("findings", []):
        if k.get("property") == pid and k.get("class") in v.get("classes", []):
            return "%s (class %s; witness %s)" % (k.get("what", ""), k["class"], k.get("witness", "?"))
    return None

# ---------------------------------------------------------------- driver

def with_prof(line, prof):
    """the line as given to model and harness for one profile: unique id, explicit prof="""
    t = line.split(" ", 2)
    rest = t[2] if len(t) > 2 else ""
    hdr, _, body = rest.partition("::")
    toks = [x for x in hdr.split() if not x.startswith("prof=")]
    return "H %s.%s %s prof=%s ::%s" % (t[1], prof, " ".join(toks), prof, body)

def run_sizes(ctx, P, cs):
    """C13: rustc's answer for size_of / align_of of MiniVec<T> and Option<MiniVec<T>> over a table of types"""
    b, log_ = hrun.build("d")
    if not b:
        return {"violations": [{"tag": "harness_build", "kind": "harness does not build against /repo", "detail": log_[:3000], "classes": []}], "coverage": {}}
    rc, out = sh_run([b, "sizes"], timeout=60)
    rows, viol = [], []
    for l in out.splitlines():
        m = re.match(r"SIZE (.+) elem=(\d+):(\d+) vec=(\d+):(\d+) opt=(\d+):(\d+)$", l)
        if m:
            rows.append(l)
            if (m.group(4), m.group(5), m.group(6), m.group(7)) != ("8", "8", "8", "8"):
                viol.append({"tag": "size_" + re.sub(r"\W", "_", m.group(1)), "kind": "MiniVec<T> is not one pointer wide / Option adds space",
                             "row": l, "classes": [], "replay_cmd": "%s sizes" % b})
    if len(rows) < 30:
        viol.append({"tag": "sizes_missing", "kind": "size table incomplete", "detail": out[-1000:], "classes": []})
    cov = {"evaluations": len(rows), "distinct_nontrivial": len(rows), "traces_validated_against_impl": len(rows),
           "rule": "one row per element type (owning, borrowing, fat-pointer, over-aligned, large): size_of/align_of of MiniVec<T> and Option<MiniVec<T>> as rustc lays them out, compared with the model's answer 8/8/8/8",
           "samples": rows[:4] + rows[-2:]}
    return {"violations": viol, "coverage": cov}

def run_rustc(ctx, P, cs):
    """C16: the corpus of must-not-compile programs and their must-compile twins against the current crate"""
    d = os.path.join(CACHE, "c16")
    os.makedirs(d, exist_ok=True)
    rlib = os.path.join(d, "libminivec.rlib")
    rc, out = sh_run(["rustc", "--edition", "2018", "--crate-type", "rlib", "--crate-name", "minivec",
                   os.path.join(REPO, "src", "lib.rs"), "-o", rlib, "-A", "warnings"], timeout=300)
    if rc != 0:
        return {"violations": [{"tag": "crate_build", "kind": "the crate does not compile", "detail": out[-2000:], "classes": []}], "coverage": {}}
    progs = sorted(f for f in os.listdir(os.path.join(VERIF, "corpus", "c16")) if f.endswith(".rs"))
    viol, rows = [], []
    import concurrent.futures
    def one(f):
        path = os.path.join(VERIF, "corpus", "c16", f)
        head = open(path).readline().strip()
        exp = head.replace("// expect:", "").split()
        rc, out = sh_run(["rustc", "--edition", "2021", "--extern", "minivec=" + rlib, "--emit=metadata", "-o",
                       os.path.join(d, f + ".rmeta"), path, "--error-format=short", "-A", "warnings"], timeout=120)
        codes = sorted(set(re.findall(r"E\d{4}", out)))
        return f, exp, rc, codes, out
    with concurrent.futures.ThreadPoolExecutor(max_workers=NCPU) as ex:
        for f, exp, rc, codes, out in ex.map(one, progs):
            ok = (exp[0] == "pass" and rc == 0) or (exp[0] == "fail" and rc != 0 and (len(exp) < 2 or exp[1] == "lifetime" or exp[1] in codes))
            rows.append("%s expect=%s observed=%s %s" % (f, " ".join(exp), "accepted" if rc == 0 else "rejected", " ".join(codes)))
            if not ok:
                viol.append({"tag": "rustc_" + f.replace(".rs", ""), "kind": "rustc's verdict differs from the expected one",
                             "program": f, "expected": exp, "observed": "accepted" if rc == 0 else "rejected " + " ".join(codes),
                             "rustc": out[-1500:], "classes": [],
                             "replay_cmd": "rustc --edition 2021 --extern minivec=%s --emit=metadata corpus/c16/%s" % (rlib, f)})
    cov = {"evaluations": len(progs), "distinct_nontrivial": len(progs), "traces_validated_against_impl": len(progs),
           "rule": "one must-not-compile program per borrowing / lifetime / auto-trait rule per API, each paired with a must-compile twin; compiled by rustc against the crate built from /repo's working tree; expected verdict and error code in the first line of each program",
           "samples": rows[:3] + rows[-3:], "verdicts": rows}
    return {"violations": viol, "coverage": cov}

def run_serde(ctx, P, cs):
    """C19: serialization / deserialization on the real crate with scripted SeqAccess (hints, errors)"""
    b, log_ = hrun.build("d")
    br, log2 = hrun.build("r")
    if not b or not br:
        return {"violations": [{"tag": "harness_build", "kind": "harness does not build against /repo", "detail": (log_ or log2)[:3000], "classes": []}], "coverage": {}}
    viol, total, samples = [], 0, []
    for prof, binp in (("d", b), ("r", br)):
        rc, out = sh_run([binp, "serde"], timeout=300)
        m = re.search(r"SERDE cases=(\d+) bad=(\d+)", out)
        lines = out.splitlines()
        samples += lines[:2] + [l for l in lines if l.startswith("DE ")][:2]
        if not m:
            viol.append({"tag": "serde_crash_" + prof, "kind": "the serde probe did not complete", "detail": out[-1500:], "rc": rc, "classes": [], "replay_cmd": "%s serde" % binp})
            continue
        total += int(m.group(1))
        if int(m.group(2)) > 0:
            badl = [l for l in lines if ("ok=false" in l or "exact=false" in l or "bounded=false" in l or l.startswith("ERR ") or l.startswith("INPLACE "))]
            viol.append({"tag": "serde_" + prof, "kind": "serde round trip / bounded reservation / error validity fails", "profile": prof,
                         "cases": badl[:10], "classes": [], "replay_cmd": "%s serde" % binp})
    cov = {"evaluations": total, "distinct_nontrivial": total, "traces_validated_against_impl": total,
           "rule": "6 element sequences (0..2049 elements) x 9 claimed size hints (absent, exact, small, 1024, 1025, 10^5, usize::MAX) x prior contents shorter/equal/longer (incl. 3000 elements, the destination's own block tracked by the allocator) x two capacities, plus an element error at every position up to 12; in-place growth bounded by what the data or the capped hint needs (else at most 1024 elements beyond the capacity already there); serialization compared with the slice's and Vec's JSON and, through a recording serializer (announced length, emitted elements, one sequence, ended), with the slice's own Serialize for five storage states; elements with a drop ledger through fresh and in-place deserialization, 6 lengths x 6 hints x an error at every position x 3 prior lengths (every value created is destroyed exactly once); both profiles",
           "samples": samples[:6]}
    return {"violations": viol, "coverage": cov}

def run(ctx, P, cs):
    if P.get("impl") == "sizes":
        return run_sizes(ctx, P, cs)
    if P.get("impl") == "rustc":
        return run_rustc(ctx, P, cs)
    if P.get("impl") == "serde":
        return run_serde(ctx, P, cs)
    pid = ctx.pid
    t0 = time.time()
    viol, cov = [], {}
    bins, blog = {}, {}
    for prof in ("d", "r"):
        b, log_ = hrun.build(prof)
        bins[prof], blog[prof] = b, log_
    if not bins["d"] or not bins["r"]:
        viol.append({"tag": "harness_build", "kind": "harness does not build against /repo",
                     "detail": (blog["d"] or blog["r"])[:3000], "classes": []})
        return {"violations": viol, "coverage": {"harness_build": "failed"}}
    import streams, model
    hs = streams.histories_for(ctx, P)
    seen, lines = set(), []
    for l in hs:
        key = l.split(" ", 2)[2] if l.count(" ") >= 2 else l
        if key not in seen:
            seen.add(key)
            lines.append(l)
    # one run per (history, profile)
    jobs = []
    for l in lines:
        for prof in hrun.header(l).get("prof", P.get("profiles", "d")):
            if prof in "dr":
                jobs.append((prof, l, with_prof(l, prof)))
    # model first: its verdict decides how the implementation is run
    mbin, mb = model.build()
    mtr = {}
    minfo = {"status": "ok"}
    if mbin:
        mtr = model.run_model(mbin, [j[2] for j in jobs])
    else:
        minfo = {"status": "model does not build", "errors": (mb or {}).get("errors") or (mb or {}).get("log", "")[-1500:]}
        cs["failed"].append({"what": "model", "detail": "the executable model (Extract.vo / OCaml driver) does not build: %s" % str(minfo["errors"])[:1500]})
    batch, child = {"d": [], "r": []}, []
    for prof, l, pl in jobs:
        fo = model.fatal_outcome(mtr.get(hrun.hid(pl), []))
        if hrun.header(l).get("child") == "1" or fo is not None or P.get("child"):
            child.append((prof, l, pl))
        else:
            batch[prof].append((l, pl))
    results = []
    for prof in ("d", "r"):
        if batch[prof]:
            r = hrun.run_batch(bins[prof], [pl for _, pl in batch[prof]])
            for l, pl in batch[prof]:
                if hrun.hid(pl) in r:
                    results.append((prof, l, pl, r[hrun.hid(pl)]))
    hangs = 0
    for prof, l, pl in child:
        # a timeout is re-run once with a larger limit (loaded machine); after two confirmed hangs further
        # timeouts are believed at once, and after eight no more child processes are started: the check has
        # its failing inputs, the rest would only cost time
        if hangs >= 8:
            break
        r1 = hrun.run_child(bins[prof], pl, timeout=P.get("child_timeout", 20), _retry=(hangs < 2))
        if r1["fate"] == "timeout":
            hangs += 1
        results.append((prof, l, pl, r1))
    nruns, nontrivial, ops_hist, fate_hist, out_hist, samples = 0, set(), {}, {}, {}, []
    compared, lines_compared = 0, 0
    mism = []
    elsewhere = {}
    for prof, l, pl, res in results:
        nruns += 1
        fate_hist[res["fate"]] = fate_hist.get(res["fate"], 0) + 1
        body = l.split("::", 1)[1]
        opsn = [o.split()[0] for o in body.split(";") if o.split()]
        for o in opsn:
            ops_hist[o] = ops_hist.get(o, 0) + 1
        for tl in res["lines"]:
            pp = hrun.parse_line(tl)
            if pp:
                out_hist[pp["out"]] = out_hist.get(pp["out"], 0) + 1
        if len(opsn) >= 2:
            nontrivial.add(body.strip() + "|" + hrun.header(l).get("cls", "") + prof)
        fo_ = model.fatal_outcome(mtr.get(hrun.hid(pl), [])) or ""
        vs = judge(pid, l, res, expected_abort=fo_.startswith(("abort", "allocabort")))
        classes = sorted(finding_class(pid, l))
        mm = None
        if mbin and hrun.hid(pl) in mtr:
            nl, mm = model.compare_one(pid, pl, mtr[hrun.hid(pl)], res)
            compared += 1
            lines_compared += nl
            if mm and mm.get("elsewhere"):
                # the traces part ways at an operation / in fields this property does not speak about
                key = "%s:%s" % (mm["op"], "+".join(mm["fields"]))
                elsewhere[key] = elsewhere.get(key, 0) + 1
                mm = None
        # The operation itself ends differently -- the model returns where the implementation panics, or
        # the other way round -- at an operation whose OUTCOME is what the property states (C01: a call
        # panics exactly when the list operation is undefined; C11: an out-of-range argument is rejected,
        # an in-range one is not; C14: the raw round trip gives the vector back): the history is a failing
        # input, not just a trace the model no longer describes.
        if mm and not vs and pid in OUTCOME_OPS and sorted(mm.get("out_pair") or []) == ["ok", "panic"] and \
           (OUTCOME_OPS[pid] is None or mm.get("op") in OUTCOME_OPS[pid]):
            vs = ["outcome_differs:%s@%s:model=%s:impl=%s" % (mm.get("op"), mm.get("at"), mm["out_pair"][0], mm["out_pair"][1])]
        if vs or (mm and mm.get("model_fatal")):
            viol.append({"tag": "monitor_" + hrun.hid(l) + prof, "kind": "property fails on the implementation" if vs else "the model reaches undefined behaviour / a hang on this history",
                         "profile": prof, "history": l, "verdicts": vs, "fate": res["fate"], "mismatch": mm,
                         "impl_trace": res["lines"][-10:], "model_trace": mtr.get(hrun.hid(pl), [])[-10:], "classes": classes,
                         "replay_cmd": "%s one '%s'" % (bins[prof], pl)})
        elif mm:
            mism.append({"tag": "corr_" + hrun.hid(l) + prof, "kind": "correspondence: model and implementation differ",
                         "profile": prof, "history": l, "mismatch": mm, "fate": res["fate"], "classes": classes,
                         "impl_trace": res["lines"][-10:], "model_trace": mtr.get(hrun.hid(pl), [])[-10:],
                         "replay_cmd": "%s one '%s'" % (bins[prof], pl), "no_failing_input": True})
    for prof, l, pl, res in results[:2] + results[-2:]:
        samples.append({"history": l, "profile": prof, "fate": res["fate"], "trace_tail": res["lines"][-2:]})
    extra = {}
    if ctx.tier == "thorough" and mbin:
        xc = model.crosscheck_extraction([j[2] for j in jobs], mtr)
        extra["extraction_crosscheck_vm_compute"] = {"histories": xc["checked"], "ok": xc["ok"]}
        if not xc["ok"]:
            cs["failed"].append({"what": "extraction", "detail": "vm_compute inside Coq and the extracted OCaml program disagree: " + xc["log"]})
    cov = {"evaluations": nruns, "distinct_nontrivial": len(nontrivial),
           "rule": "histories = committed corpus (runs first) + seeded generator stream of this property (85+% valid "
                   "operations, separate malformed arguments, all six storage states, 12 element classes); each runs on the "
                   "real crate under the checking allocator and on the extracted Coq machine, traces compared line by line "
                   "in this property's projection; distinct by canonical text (operations, class, profile); non-trivial = at least two operations",
           "traces_validated_against_impl": compared, "trace_lines_compared": lines_compared,
           "operation_histogram": ops_hist, "outcome_histogram": out_hist, "fate_histogram": fate_hist, "samples": samples,
           "model": minfo, "correspondence_mismatches": len(mism),
           "diverged_where_this_property_does_not_speak": elsewhere,
           "impl_wall_s": round(time.time() - t0, 1)}
    cov.update(extra)
    return {"violations": viol, "mismatches": mism, "coverage": cov}
