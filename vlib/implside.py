"""implementation side: harness runs, monitors, correspondence with the model (DESIGN.md 3.6/3.7)"""
import os, re, json, time
from common import *
import hrun

# which monitor verdicts speak about which property (prefix match)
OWN = ["dead_exposed", "dup_exposed", "double_drop", "garbage_"]
ALLOCM = ["layout_mismatch", "double_free", "redzone", "wild_ptr", "null_with_len"]
RELEVANT = {
    "C01": ["vec_mismatch", "vec_ret_mismatch", "macro_repeat"],
    "C02": OWN + ["leak_elem", "leak_block"],
    "C03": ALLOCM + ["cap_exceeds_block", "leak_block"],
    "C04": OWN + ALLOCM,
    "C05": OWN + ALLOCM,
    "C06": OWN + ALLOCM + ["crash", "vec_mismatch", "iter_protocol", "sentinel_alloc"],
    "C07": ["capacity_contract", "len_gt_cap", "cap_exceeds_block", "spare_view_wrong", "storage_moved"],
    "C08": ["lost_overalignment", "misaligned", "walign_"],
    "C09": ["capacity_contract", "cap_exceeds_block", "len_gt_cap", "hang", "profile_disagreement", "crash"],
    "C10": ["iter_protocol", "garbage_yielded", "crash"],
    "C11": ["accepted_out_of_range", "rejected_in_range", "changed_by_rejected_call"],
    "C12": OWN + ALLOCM + ["iter_protocol", "garbage_yielded", "crash", "clone_shares_storage"],
    "C14": ["raw_roundtrip_moved", "crash", "len_gt_cap", "cap_exceeds_block"] + OWN,
    "C15": ["slice_semantics"],
    "C17": OWN + ALLOCM + ["crash", "leak_block"],
    "C18": ["crash"],
}

def relevant(pid, mon):
    return any(mon.startswith(p) for p in RELEVANT.get(pid, []))

def load_corpus():
    out = []
    d = os.path.join(VERIF, "corpus")
    for f in sorted(os.listdir(d)):
        if f.endswith(".hist"):
            for l in open(os.path.join(d, f)):
                l = l.strip()
                if l.startswith("H "):
                    out.append(l)
    return out

def is_leak_free_stream(line):
    """no panic script, no forget, no leak op: every element must be destroyed or handed out"""
    body = line.split("::", 1)[1]
    hdr = line.split("::", 1)[0]
    if " dp=" in hdr or " cp=" in hdr or " af=" in hdr:
        return False
    for op in body.split(";"):
        t = op.split()
        if not t:
            continue
        if t[0] in ("forget", "leak"):
            return False
        if any("P" in x for x in t[1:] if x.isalpha()):
            return False
    return True

def judge(pid, line, res):
    """verdicts of the implementation-side monitors for one executed history"""
    v = []
    h = hrun.header(line)
    if res["fate"] != "done":
        kind = "hang" if res["fate"] == "timeout" else "crash"
        if relevant(pid, kind):
            v.append("%s:%s" % (kind, res["fate"]))
    last = None
    for l in res["lines"]:
        p = hrun.parse_line(l)
        if not p:
            continue
        last = p
        for m in p["mon"]:
            if relevant(pid, m):
                v.append("%s@%d:%s" % (m, p["k"], p["op"]))
    if last and last["op"] == "end" and res["fate"] == "done" and is_leak_free_stream(line):
        led, _, blocks = last["ret"].partition(";")
        if "L" in led and relevant(pid, "leak_elem"):
            v.append("leak_elem:" + led)
        if blocks not in ("[]", "") and relevant(pid, "leak_block"):
            v.append("leak_block:" + blocks)
    return v

# ---------------------------------------------------------------- known findings

def next_aligned(n, a):
    return n if n % a == 0 else n + (a - n % a)

ALIGN_OF = {"1x1": 1, "2x2": 2, "3x1": 1, "8x8": 8, "24x8": 8, "16x16": 16, "64x64": 64, "2048x8": 8, "u8": 1}

def finding_class(pid, line):
    """classes of recorded known findings a history falls into (computed from the history text)"""
    cls = hrun.header(line).get("cls", "8x8").rstrip("c")
    ea = ALIGN_OF.get(cls, 8)
    out = set()
    body = line.split("::", 1)[1]
    aligned = {}
    for op in body.split(";"):
        t = op.split()
        if not t:
            continue
        if t[0] == "walign" and len(t) > 3 and t[3].isdigit():
            aligned[t[1]] = int(t[3])
        if t[0] in ("splitoff", "drainvec") and len(t) > 2 and t[1] in aligned:
            aligned[t[2]] = aligned[t[1]]
        if t[0] == "rawrt" and t[1] in aligned:
            a = aligned[t[1]]
            if a > 0 and next_aligned(24, a) != next_aligned(24, max(ea, 1)):
                out.add("raw_roundtrip_header_distance")
    return out

def match_known(pid, v, known):
    for k in known.get("findings", []):
        if k.get("property") == pid and k.get("class") in v.get("classes", []):
            return "%s (class %s; witness %s)" % (k.get("what", ""), k["class"], k.get("witness", "?"))
    return None

# ---------------------------------------------------------------- driver

def with_prof(line, prof):
    """the line as given to model and harness for one profile: unique id, explicit prof="""
    t = line.split(" ", 2)
    rest = t[2] if len(t) > 2 else ""
    hdr, _, body = rest.partition("::")
    toks = [x for x in hdr.split() if not x.startswith("prof=")]
    return "H %s.%s %s prof=%s ::%s" % (t[1], prof, " ".join(toks), prof, body)

def run(ctx, P, cs):
    pid = ctx.pid
    t0 = time.time()
    viol, cov = [], {}
    bins, blog = {}, {}
    for prof in ("d", "r"):
        b, log_ = hrun.build(prof)
        bins[prof], blog[prof] = b, log_
    if not bins["d"] or not bins["r"]:
        viol.append({"tag": "harness_build", "kind": "harness does not build against /repo",
                     "detail": (blog["d"] or blog["r"])[:3000], "classes": []})
        return {"violations": viol, "coverage": {"harness_build": "failed"}}
    import streams, model
    hs = streams.histories_for(ctx, P)
    seen, lines = set(), []
    for l in hs:
        key = l.split(" ", 2)[2] if l.count(" ") >= 2 else l
        if key not in seen:
            seen.add(key)
            lines.append(l)
    # one run per (history, profile)
    jobs = []
    for l in lines:
        for prof in hrun.header(l).get("prof", P.get("profiles", "d")):
            if prof in "dr":
                jobs.append((prof, l, with_prof(l, prof)))
    # model first: its verdict decides how the implementation is run
    mbin, mb = model.build()
    mtr = {}
    minfo = {"status": "ok"}
    if mbin:
        mtr = model.run_model(mbin, [j[2] for j in jobs])
    else:
        minfo = {"status": "model does not build", "errors": (mb or {}).get("errors") or (mb or {}).get("log", "")[-1500:]}
        cs["failed"].append({"what": "model", "detail": "the executable model (Extract.vo / OCaml driver) does not build: %s" % str(minfo["errors"])[:1500]})
    batch, child = {"d": [], "r": []}, []
    for prof, l, pl in jobs:
        fo = model.fatal_outcome(mtr.get(hrun.hid(pl), []))
        if hrun.header(l).get("child") == "1" or fo is not None or P.get("child"):
            child.append((prof, l, pl))
        else:
            batch[prof].append((l, pl))
    results = []
    for prof in ("d", "r"):
        if batch[prof]:
            r = hrun.run_batch(bins[prof], [pl for _, pl in batch[prof]])
            for l, pl in batch[prof]:
                if hrun.hid(pl) in r:
                    results.append((prof, l, pl, r[hrun.hid(pl)]))
    for prof, l, pl in child:
        results.append((prof, l, pl, hrun.run_child(bins[prof], pl, timeout=P.get("child_timeout", 20))))
    nruns, nontrivial, ops_hist, fate_hist, out_hist, samples = 0, set(), {}, {}, {}, []
    compared, lines_compared = 0, 0
    mism = []
    for prof, l, pl, res in results:
        nruns += 1
        fate_hist[res["fate"]] = fate_hist.get(res["fate"], 0) + 1
        body = l.split("::", 1)[1]
        opsn = [o.split()[0] for o in body.split(";") if o.split()]
        for o in opsn:
            ops_hist[o] = ops_hist.get(o, 0) + 1
        for tl in res["lines"]:
            pp = hrun.parse_line(tl)
            if pp:
                out_hist[pp["out"]] = out_hist.get(pp["out"], 0) + 1
        if len(opsn) >= 2:
            nontrivial.add(body.strip() + "|" + hrun.header(l).get("cls", "") + prof)
        vs = judge(pid, l, res)
        classes = sorted(finding_class(pid, l))
        mm = None
        if mbin and hrun.hid(pl) in mtr:
            nl, mm = model.compare_one(pid, pl, mtr[hrun.hid(pl)], res)
            compared += 1
            lines_compared += nl
        if vs or (mm and mm.get("model_fatal")):
            viol.append({"tag": "monitor_" + hrun.hid(l) + prof, "kind": "property fails on the implementation" if vs else "the model reaches undefined behaviour / a hang on this history",
                         "profile": prof, "history": l, "verdicts": vs, "fate": res["fate"], "mismatch": mm,
                         "impl_trace": res["lines"][-10:], "model_trace": mtr.get(hrun.hid(pl), [])[-10:], "classes": classes,
                         "replay_cmd": "%s one '%s'" % (bins[prof], pl)})
        elif mm:
            mism.append({"tag": "corr_" + hrun.hid(l) + prof, "kind": "correspondence: model and implementation differ",
                         "profile": prof, "history": l, "mismatch": mm, "fate": res["fate"], "classes": classes,
                         "impl_trace": res["lines"][-10:], "model_trace": mtr.get(hrun.hid(pl), [])[-10:],
                         "replay_cmd": "%s one '%s'" % (bins[prof], pl), "no_failing_input": True})
    for prof, l, pl, res in results[:2] + results[-2:]:
        samples.append({"history": l, "profile": prof, "fate": res["fate"], "trace_tail": res["lines"][-2:]})
    cov = {"evaluations": nruns, "distinct_nontrivial": len(nontrivial),
           "rule": "histories = committed corpus (runs first) + seeded generator stream of this property (85+% valid "
                   "operations, separate malformed arguments, all six storage states, 12 element classes); each runs on the "
                   "real crate under the checking allocator and on the extracted Coq machine, traces compared line by line "
                   "in this property's projection; distinct by canonical text (operations, class, profile); non-trivial = at least two operations",
           "traces_validated_against_impl": compared, "trace_lines_compared": lines_compared,
           "operation_histogram": ops_hist, "outcome_histogram": out_hist, "fate_histogram": fate_hist, "samples": samples,
           "model": minfo, "correspondence_mismatches": len(mism), "impl_wall_s": round(time.time() - t0, 1)}
    return {"violations": viol, "mismatches": mism, "coverage": cov}
