"""translator + Coq build + audit"""
import os, re, shutil, time, json
from common import *

RS2V = os.path.join(VERIF, "rs2v")
GEN = os.path.join(COQ, "Gen")
FORBIDDEN = re.compile(r"\b(Admitted|admit|Axiom|Axioms|Parameter|Parameters|Conjecture|Conjectures|"
                       r"Unset\s+Guard|bypass_check|Admit\s+Obligations|type-in-type|impredicative-set|"
                       r"Unset\s+Universe\s+Checking|Unset\s+Positivity)\b|^\s*Abort\s*\.")
SECTION_ONLY = re.compile(r"^\s*(Variable|Variables|Hypothesis|Hypotheses|Context)\b")
AX_ALLOW = set()   # Print Assumptions allowlist: empty -- the development uses no axioms

def newest(paths):
    m = 0
    for p in paths:
        try:
            m = max(m, os.path.getmtime(p))
        except OSError:
            pass
    return m

def ensure_rs2v():
    binp = os.path.join(RS2V, "target", "debug", "rs2v")
    srcs = tree_files(RS2V, (".rs", ".toml", ".lock"))
    if not os.path.exists(binp) or os.path.getmtime(binp) < newest(srcs):
        rc, out = run(["cargo", "build", "--offline"], cwd=RS2V, timeout=900)
        if rc != 0:
            return None, out
    return binp, ""

def translate():
    """regenerate coq/Gen from /repo/src; files are rewritten only when their content changes"""
    with locked("translate"):
        binp, err = ensure_rs2v()
        if not binp:
            return {"ok": False, "log": "rs2v build failed:\n" + err}
        tmp = os.path.join(CACHE, "gen_tmp%d" % os.getpid())
        shutil.rmtree(tmp, ignore_errors=True)
        os.makedirs(tmp)
        rc, out = run([binp, os.path.join(REPO, "src"), tmp], timeout=120)
        if rc != 0:
            shutil.rmtree(tmp, ignore_errors=True)
            return {"ok": False, "log": "rs2v failed (rc %d):\n%s" % (rc, out)}
        changed = []
        os.makedirs(GEN, exist_ok=True)
        for f in sorted(os.listdir(tmp)):
            if write_if_changed(os.path.join(GEN, f), open(os.path.join(tmp, f)).read()):
                changed.append(f)
        shutil.rmtree(tmp, ignore_errors=True)
        return {"ok": True, "log": out.strip(), "changed": changed}

def ensure_makefile():
    mk = os.path.join(COQ, "Makefile")
    cp = os.path.join(COQ, "_CoqProject")
    if not os.path.exists(mk) or os.path.getmtime(mk) < os.path.getmtime(cp):
        rc, out = run(["coq_makefile", "-f", "_CoqProject", "-o", "Makefile"], cwd=COQ)
        if rc != 0:
            raise RuntimeError("coq_makefile failed: " + out)

def enclosing_decl(vfile, line):
    """name of the Lemma/Theorem/Definition enclosing a line of a .v file"""
    name = None
    try:
        for i, l in enumerate(open(vfile), 1):
            m = re.match(r"\s*(Lemma|Theorem|Corollary|Example|Definition|Fixpoint|Fact|Remark|Check)\s+([A-Za-z0-9_']+)", l)
            if m:
                name = m.group(2)
            if i >= line:
                break
    except OSError:
        pass
    return name

def parse_error(out):
    m = re.search(r'File "([^"]+)", line (\d+), characters [\d-]+:\s*\n(Error:.*?)(?:\n\n|\nmake|\Z)', out, re.S)
    if not m:
        if "[timeout" in out or "Timeout" in out:
            return {"file": None, "line": None, "decl": None, "msg": "timeout"}
        return None
    f = os.path.normpath(os.path.join(COQ, m.group(1)))
    line = int(m.group(2))
    return {"file": os.path.relpath(f, COQ), "line": line, "decl": enclosing_decl(f, line), "msg": m.group(3).strip()[:1500]}

def build(targets, timeout=1500, keep_going=True):
    """make the given .vo targets (full .vo build).  returns dict(ok, log, error, failed_targets)"""
    with locked("coq"):
        ensure_makefile()
        t0 = time.time()
        cmd = ["make", "-j%d" % NCPU] + (["-k"] if keep_going else []) + list(targets)
        rc, out = run(cmd, cwd=COQ, timeout=timeout)
        res = {"ok": rc == 0, "log": out[-20000:], "wall_s": round(time.time() - t0, 1), "cmd": "make -C coq -j%d %s" % (NCPU, " ".join(targets))}
        if rc != 0:
            res["error"] = parse_error(out)
            res["errors"] = []
            for m in re.finditer(r'File "([^"]+)", line (\d+), characters [\d-]+:\s*\n(Error:.*?)(?=\n\n|\nmake|\nFile|\Z)', out, re.S):
                f = os.path.normpath(os.path.join(COQ, m.group(1)))
                res["errors"].append({"file": os.path.relpath(f, COQ), "line": int(m.group(2)),
                                      "decl": enclosing_decl(f, int(m.group(2))), "msg": m.group(3).strip()[:800]})
            res["missing"] = [t for t in targets if not os.path.exists(os.path.join(COQ, t))]
        return res

def compile_property(pid, timeout=600):
    """force-recompile Properties/<pid>.v so that its Check / Print Assumptions output is fresh"""
    with locked("coq"):
        ensure_makefile()
        vo = os.path.join(COQ, "Properties", pid + ".vo")
        for ext in (".vo", ".vok", ".vos", ".glob"):
            try:
                os.remove(os.path.join(COQ, "Properties", pid + ext))
            except OSError:
                pass
        rc, out = run(["make", "-j%d" % NCPU, "Properties/%s.vo" % pid], cwd=COQ, timeout=timeout)
    closed = len(re.findall(r"Closed under the global context", out))
    axioms = []
    for m in re.finditer(r"Axioms:\n((?:.+\n?)+?)(?:\n|\Z)", out):
        for l in m.group(1).splitlines():
            mm = re.match(r"^([A-Za-z_][\w.']*)\s*:", l)
            if mm:
                axioms.append(mm.group(1))
    return {"ok": rc == 0 and os.path.exists(vo), "log": out[-8000:], "closed": closed, "axioms": sorted(set(axioms)),
            "error": parse_error(out) if rc != 0 else None}

def theorem_names(vpath):
    names = []
    for l in open(vpath):
        m = re.match(r"\s*(Theorem|Lemma|Corollary|Example)\s+([A-Za-z0-9_']+)", l)
        if m:
            names.append((m.group(1), m.group(2)))
    return names

def strip_comments(s):
    out, depth, i = [], 0, 0
    while i < len(s):
        if s.startswith("(*", i):
            depth += 1; i += 2
        elif s.startswith("*)", i) and depth:
            depth -= 1; i += 2
        else:
            if not depth:
                out.append(s[i])
            elif s[i] == "\n":
                out.append("\n")
            i += 1
    return "".join(out)

def audit():
    """no Admitted/admit/Axiom/... anywhere in the development (comments and strings excluded)"""
    hits = []
    for f in tree_files(COQ, (".v",)):
        txt = strip_comments(open(f).read())
        txt = re.sub(r'"(?:[^"]|"")*"', '""', txt)
        depth = 0
        for i, l in enumerate(txt.splitlines(), 1):
            if re.match(r"^\s*Section\b", l):
                depth += 1
            elif re.match(r"^\s*End\b", l) and depth > 0:
                depth -= 1
            if FORBIDDEN.search(l):
                hits.append("%s:%d: %s" % (os.path.relpath(f, COQ), i, l.strip()[:120]))
            elif SECTION_ONLY.search(l) and depth == 0:
                # a Variable / Hypothesis outside a section declares an axiom
                hits.append("%s:%d: outside a section: %s" % (os.path.relpath(f, COQ), i, l.strip()[:120]))
    return hits
