def generate(ctx, P):
    return []
