"""seeded history generator (DESIGN.md 3.6): mostly-valid operation sequences over up to three
vectors and three iterators, from all six storage states, plus a malformed stream, plus the
derived families (panic at a callback, forget at an iterator step, failing allocator request)"""
import random, zlib

CLASSES = ["8x8", "3x1", "24x8", "1x1", "2x2", "16x16", "64x64", "2048x8", "8x8c", "3x1c", "16x16c", "64x64c", "8x8k"]
TRACKED = [c for c in CLASSES if not (c.endswith("c") or c.endswith("k"))]

class G:
    def __init__(self, rng, flavor):
        self.r = rng
        self.f = flavor
        self.len = {}        # vec -> approximate length
        self.cap = {}
        self.iters = {}      # iter -> (kind, vec or None, remaining estimate)
        self.ops = []
        self.fresh = 0

    # ---- helpers
    def free_vec(self):
        for v in range(4):
            if v not in self.len:
                return v
        return None
    def free_iter(self):
        for i in range(3):
            if i not in self.iters:
                return i
        return None
    def borrowed(self, v):
        return any(it[1] == v and it[0] != "into" for it in self.iters.values())
    def usable(self):
        return [v for v in self.len if not self.borrowed(v)]
    def idx(self, v, strict):
        """an index argument: mostly valid"""
        L = self.len[v]
        r = self.r
        if r.random() < self.f.get("malformed", 0.12):
            return r.choice(["L+1", "L+2", "M", "M-1", "L+7", "M/2", "L"] if strict else ["L+1", "L+2", "M", "M-1", "L+7", "M/2"])
        pool = ["0", "L-1", "L/2", "1", "L-2", str(r.randint(0, max(L - 1, 0)))]
        if not strict:
            pool += ["L", "L"]
        c = r.choice(pool)
        return c
    def bounds(self, v):
        r = self.r
        L = self.len[v]
        if r.random() < self.f.get("malformed", 0.12):
            a = r.choice(["0", "1", "L", "L+1", "M", "M-1", "L-1"])
            b = r.choice(["0", "1", "L", "L+1", "M", "M-1", "L-1"])
            return r.choice(["i", "e"]) + a, r.choice(["i", "e"]) + b
        s = r.randint(0, L)
        e = r.randint(s, L)
        bs = r.choice(["u"] if s == 0 else []) if (s == 0 and r.random() < 0.5) else None
        if bs is None:
            bs = ("i%d" % s) if (s == 0 or r.random() < 0.7) else ("e%d" % (s - 1))
        be = "u" if (e == L and r.random() < 0.5) else (("e%d" % e) if (e == 0 or r.random() < 0.7) else ("i%d" % (e - 1)))
        return bs, be
    def tf(self, n, default="TF", p=0.0):
        r = self.r
        s = "".join(r.choice(default) for _ in range(n))
        if p and s and r.random() < p:
            k = r.randrange(len(s))
            s = s[:k] + "P" + s[k + 1:]
        return s or "-"
    def iterscript(self, n):
        r = self.r
        if self.f.get("illbehaved") and r.random() < 0.6:
            s = "".join(r.choice("SSSN") for _ in range(n + r.randint(0, 3)))
            if r.random() < 0.5:
                s = "h%d:%s" % (r.choice([0, 1, 3, 7, 1000]), s)
        else:
            s = "S" * n
        if self.f.get("panic") and s and r.random() < 0.25:
            k = r.randrange(len(s.split(":")[-1]))
            body = s.split(":")[-1]
            body = body[:k] + "P" + body[k + 1:]
            s = body
        return s or "-"

    # ---- start states
    def start(self, v, state=None):
        r = self.r
        st = state or r.choice(["never", "allocated_empty", "zero_cap", "partly", "full", "overaligned", "overaligned0"])
        n = 0
        if st == "never":
            self.ops.append(r.choice(["new %d", "default %d", "mac0 %d", "wcap %d 0"]) % v)
            cap = 0
        elif st == "allocated_empty":
            cap = r.choice([1, 2, 4, 5, 8])
            self.ops.append("wcap %d %d" % (v, cap))
        elif st == "zero_cap":
            self.ops += ["wcap %d %d" % (v, r.choice([1, 4])), "shrinkfit %d" % v]
            cap = 0
        elif st == "partly":
            cap = r.choice([4, 6, 8])
            n = r.randint(1, cap - 1)
            self.ops.append("wcap %d %d" % (v, cap))
        elif st == "full":
            cap = r.choice([1, 3, 4])
            n = cap
            self.ops.append("wcap %d %d" % (v, cap))
        elif st == "overaligned":
            cap = r.choice([1, 4, 6])
            a = r.choice([8, 16, 32, 64, 128, 512, 4096])
            n = r.randint(0, cap)
            self.ops.append("walign %d %d %d" % (v, cap, a))
        else:
            cap = 0
            a = r.choice([16, 32, 64, 256, 4096])
            self.ops.append("walign %d 0 %d" % (v, a))
        dup = r.random() < 0.3
        for k in range(n):
            self.ops.append("push %d%s" % (v, (" =%d" % r.choice([1, 2, 2, 3, 7])) if dup else ""))
        self.fresh += n
        self.len[v] = n
        self.cap[v] = cap
        return st

    # ---- one random operation
    def op(self):
        r = self.r
        f = self.f
        us = self.usable()
        choices = []
        w = f.get("weights", {})
        def add(name, wt):
            choices.append((name, wt * w.get(name, 1.0)))
        if us:
            for nm, wt in [("push", 6), ("pop", 3), ("insert", 4), ("remove", 3), ("swaprm", 2), ("trunc", 2), ("clear", 0.7),
                           ("resize", 1.5), ("resizewith", 1), ("extslice", 1.5), ("extend", 1.2), ("extwithin", 1.5),
                           ("dedup", 1), ("dedupby", 1), ("dedupkey", 0.7), ("retain", 1.5), ("rmitem", 0.8),
                           ("reserve", 1.2), ("reservex", 1), ("shrinkfit", 1.2), ("shrinkto", 1),
                           ("spare", 0.4), ("splitspare", 0.4), ("index", 0.8), ("slice", 0.6),
                           ("drop", 0.3), ("rawrt", 0.3 if f.get("raw") else 0.0), ("leak", 0.1 if f.get("leak") else 0.0)]:
                add(nm, wt)
            if self.free_vec() is not None:
                for nm, wt in [("clone", 1.2), ("splitoff", 1.5), ("drainvec", 0.8)]:
                    add(nm, wt)
            if len(us) >= 2:
                add("append", 1.5)
                add("cmp", 0.5)
            if self.free_iter() is not None:
                for nm, wt in [("drain", 2.5), ("splice", 3), ("dfilter", 2.5), ("intoiter", 1.5)]:
                    add(nm, wt)
        if self.free_vec() is not None:
            add("newvec", 1.0 if us else 50)
            add("fromslice", 0.6); add("fromiter", 0.5); add("macrep", 0.4); add("maclist", 0.3)
        if self.iters:
            add("iterstep", 9)
            add("iterend", 2.5)
        tot = sum(c[1] for c in choices)
        x = r.random() * tot
        for nm, wt in choices:
            x -= wt
            if x <= 0:
                break
        getattr(self, "o_" + nm)()

    def pick(self):
        return self.r.choice(self.usable())

    def o_newvec(self):
        self.start(self.free_vec())
    def o_fromslice(self):
        v = self.free_vec(); n = self.r.randint(0, 5)
        self.ops.append("%s %d %d" % (self.r.choice(["fromslice", "frommut"]), v, n)); self.len[v] = n; self.cap[v] = n; self.fresh += 2 * n
    def o_fromiter(self):
        v = self.free_vec(); n = self.r.randint(0, 6)
        self.ops.append("fromiter %d %s" % (v, self.iterscript(n))); self.len[v] = n; self.cap[v] = n; self.fresh += n + 3
    def o_macrep(self):
        v = self.free_vec(); n = self.r.randint(0, 5)
        if self.f.get("panic") and self.r.random() < 0.5:
            self.want_cp = getattr(self, "want_cp", []) + [self.fresh]     # the element expression's value: its clone panics
        self.ops.append("macrep %d %d" % (v, n)); self.len[v] = n; self.cap[v] = n; self.fresh += n + 1
    def o_maclist(self):
        v = self.free_vec()
        self.ops.append("maclist %d" % v); self.len[v] = 3; self.cap[v] = 4; self.fresh += 3
    def o_push(self):
        v = self.pick()
        self.ops.append("push %d%s" % (v, (" =%d" % self.r.choice([1, 2, 3, 7])) if self.r.random() < 0.25 else ""))
        self.len[v] += 1; self.fresh += 1
    def o_pop(self):
        v = self.pick(); self.ops.append("pop %d" % v); self.len[v] = max(0, self.len[v] - 1)
    def o_insert(self):
        v = self.pick(); self.ops.append("insert %d %s" % (v, self.idx(v, False))); self.len[v] += 1; self.fresh += 1
    def o_remove(self):
        v = self.pick(); self.ops.append("remove %d %s" % (v, self.idx(v, True))); self.len[v] = max(0, self.len[v] - 1)
    def o_swaprm(self):
        v = self.pick(); self.ops.append("swaprm %d %s" % (v, self.idx(v, True))); self.len[v] = max(0, self.len[v] - 1)
    def o_trunc(self):
        v = self.pick(); a = self.r.choice(["0", "1", "L-1", "L", "L+3", "L/2"]); self.ops.append("trunc %d %s" % (v, a)); self.len[v] = max(0, self.len[v] - 1)
    def o_clear(self):
        v = self.pick(); self.ops.append("clear %d" % v); self.len[v] = 0
    def o_resize(self):
        v = self.pick(); a = self.r.choice(["0", "L", "L+1", "L+3", "L-1", "C", "C+1", "L/2"]); self.ops.append("resize %d %s" % (v, a)); self.len[v] += 2; self.fresh += 5
    def o_resizewith(self):
        v = self.pick(); a = self.r.choice(["0", "L", "L+1", "L+3", "L-1", "C+1"])
        sc = "-" if not self.f.get("panic") or self.r.random() < 0.6 else self.tf(4, "S", 1.0)
        self.ops.append("resizewith %d %s %s" % (v, a, sc)); self.len[v] += 2; self.fresh += 4
    def o_extslice(self):
        v = self.pick(); n = self.r.randint(0, 5); self.ops.append("extslice %d %d" % (v, n)); self.len[v] += n; self.fresh += 2 * n
    def o_extend(self):
        v = self.pick(); n = self.r.randint(0, 5); self.ops.append("extend %d %s" % (v, self.iterscript(n))); self.len[v] += n; self.fresh += n + 3
    def o_extwithin(self):
        v = self.pick(); bs, be = self.bounds(v); self.ops.append("extwithin %d %s %s" % (v, bs, be)); self.fresh += self.len[v]; self.len[v] *= 2
    def o_append(self):
        us = self.usable(); a, b = self.r.sample(us, 2); self.ops.append("append %d %d" % (a, b)); self.len[a] += self.len[b]; self.len[b] = 0
    def o_dedup(self):
        v = self.pick(); self.ops.append("dedup %d" % v)
    def o_dedupkey(self):
        v = self.pick(); self.ops.append("dedupkey %d" % v)
    def o_dedupby(self):
        v = self.pick(); self.ops.append("dedupby %d %s" % (v, self.tf(max(self.len[v] - 1, 1), "TF", 0.3 if self.f.get("panic") else 0)))
    def o_retain(self):
        v = self.pick(); self.ops.append("retain %d %s" % (v, self.tf(self.len[v] + self.r.randint(-1, 1), "TTF", 0.3 if self.f.get("panic") else 0)))
    def o_rmitem(self):
        v = self.pick(); self.ops.append("rmitem %d %d" % (v, self.r.choice([0, 1, 2, 3, 7, 50]))); self.fresh += 1
    def o_reserve(self):
        v = self.pick(); self.ops.append("reserve %d %s" % (v, self.r.choice(["0", "1", "3", "C", "C+1", "17", "L"])))
    def o_reservex(self):
        v = self.pick(); self.ops.append("reservex %d %s" % (v, self.r.choice(["0", "1", "3", "C", "C+1", "9"])))
    def o_shrinkfit(self):
        v = self.pick(); self.ops.append("shrinkfit %d" % v)
    def o_shrinkto(self):
        v = self.pick(); self.ops.append("shrinkto %d %s" % (v, self.r.choice(["0", "L", "L+1", "C", "C-1", "C+1", "L/2", "1"])))
    def o_spare(self):
        self.ops.append("spare %d" % self.pick())
    def o_splitspare(self):
        self.ops.append("splitspare %d" % self.pick())
    def o_index(self):
        v = self.pick(); self.ops.append("index %d %s" % (v, self.idx(v, True)))
    def o_slice(self):
        v = self.pick(); bs, be = self.bounds(v); self.ops.append("slice %d %s %s" % (v, bs, be))
    def o_cmp(self):
        a, b = self.r.sample(self.usable(), 2); self.ops.append("cmp %d %d" % (a, b))
    def o_drop(self):
        v = self.pick(); self.ops.append("drop %d" % v); del self.len[v]
    def o_rawrt(self):
        v = self.pick(); self.ops.append("rawrt %d %d" % (v, self.r.choice([1, 3])))
    def o_leak(self):
        v = self.pick(); self.ops.append("leak %d" % v); del self.len[v]
    def o_clone(self):
        v = self.pick(); w = self.free_vec(); self.ops.append("clone %d %d" % (v, w)); self.len[w] = self.len[v]; self.cap[w] = 0; self.fresh += self.len[v]
    def o_splitoff(self):
        v = self.pick(); w = self.free_vec(); self.ops.append("splitoff %d %d %s" % (v, w, self.idx(v, False))); self.len[w] = self.len[v] // 2; self.len[v] -= self.len[w]; self.cap[w] = 0
    def o_drainvec(self):
        v = self.pick(); w = self.free_vec(); self.ops.append("drainvec %d %d" % (v, w)); self.len[w] = self.len[v]; self.len[v] = 0; self.cap[w] = 0
    def o_drain(self):
        v = self.pick(); i = self.free_iter(); bs, be = self.bounds(v)
        self.ops.append("drain %d %d %s %s" % (v, i, bs, be)); self.iters[i] = ("drain", v, self.len[v])
    def o_splice(self):
        v = self.pick(); i = self.free_iter(); bs, be = self.bounds(v); n = self.r.choice([0, 0, 1, 2, 3, 5, self.len[v]])
        self.ops.append("splice %d %d %s %s %s" % (v, i, bs, be, self.iterscript(n))); self.iters[i] = ("splice", v, self.len[v]); self.fresh += n + 3
    def o_dfilter(self):
        v = self.pick(); i = self.free_iter()
        self.ops.append("dfilter %d %d %s" % (v, i, self.tf(self.len[v] + 1, "TF", 0.3 if self.f.get("panic") else 0))); self.iters[i] = ("filter", v, self.len[v])
    def o_intoiter(self):
        v = self.pick(); i = self.free_iter()
        self.ops.append("intoiter %d %d" % (v, i)); self.iters[i] = ("into", None, self.len[v]); del self.len[v]
    def o_iterstep(self):
        i = self.r.choice(list(self.iters)); kind = self.iters[i][0]
        c = self.r.random()
        if c < 0.40:
            self.ops.append("next %d" % i)
        elif c < 0.47:
            self.ops.append("nth %d %d" % (i, self.r.choice([0, 1, 1, 2, 3, 7])))
        elif c < 0.50 and kind != "filter":
            self.ops.append("nthb %d %d" % (i, self.r.choice([0, 1, 2, 5])))
        elif c < 0.52:
            self.ops.append(self.r.choice(["count %d", "last %d"]) % i)
        elif c < 0.75 and kind != "filter":
            self.ops.append("nextb %d" % i)
        elif c < 0.87:
            self.ops.append("hint %d" % i)
        elif kind == "into" and c < 0.94:
            self.ops.append("asslice %d" % i)
        elif kind == "into" and self.free_iter() is not None and self.f.get("cloneit", True):
            j = self.free_iter(); self.ops.append("cloneit %d %d" % (i, j)); self.iters[j] = ("into", None, self.iters[i][2]); self.fresh += self.iters[i][2]
        else:
            self.ops.append("next %d" % i)
    def o_iterend(self):
        i = self.r.choice(list(self.iters)); kind, v, n = self.iters[i]
        if self.f.get("forget") and self.r.random() < 0.5:
            self.ops.append("forget %d" % i)
        else:
            self.ops.append("dropit %d" % i)
        del self.iters[i]
        if v is not None and v in self.len:
            self.len[v] = max(self.len[v], 1)

def make(rng, flavor, hid, cls=None, nops=None, start=None):
    g = G(rng, flavor)
    cls = cls or rng.choice(flavor.get("classes", CLASSES))
    g.start(0, start or flavor.get("start"))
    n = nops if nops is not None else rng.randint(1, flavor.get("maxops", 22))
    limit = 180 if cls.startswith("1x1") else 1500
    for _ in range(n):
        if g.fresh > limit:
            break
        g.op()
    hdr = "H %s cls=%s" % (hid, cls)
    if flavor.get("prof"):
        hdr += " prof=" + flavor["prof"]
    if flavor.get("panic") and cls in TRACKED and getattr(g, "want_cp", None) and rng.random() < 0.7:
        hdr += " cp=" + ",".join(map(str, sorted(set(g.want_cp))))
    elif flavor.get("clone_panics") and cls in TRACKED and g.fresh > 0 and rng.random() < 0.25 and \
            any(o.split()[0] in ("clone", "cloneit") for o in g.ops):
        hdr += " cp=" + ",".join(map(str, sorted(set(rng.randrange(g.fresh) for _ in range(rng.choice([1, 2]))))))
    elif flavor.get("panic") and cls in TRACKED and rng.random() < 0.5 and g.fresh > 0:
        ids = sorted(set(rng.randrange(g.fresh) for _ in range(rng.choice([1, 1, 2]))))
        if rng.random() < 0.6:
            hdr += " dp=" + ",".join(map(str, ids))
        else:
            hdr += " cp=" + ",".join(map(str, ids))
    return hdr + " :: " + " ; ".join(g.ops)

def iter_scenario(rng, flavor, hid):
    """structured scenario: one vector in a chosen storage state, one iterator with a chosen window,
    a chosen interleaving of front/back steps, a chosen replacement length / predicate, ended by
    drop or forget, followed by a probe sequence.  Covers the product the random walk reaches slowly."""
    cls = rng.choice(flavor.get("classes", CLASSES))
    n = rng.choice([0, 1, 2, 3, 4, 5, 6, 7])
    extra = rng.choice([0, 0, 1, 3])
    ops = []
    st = rng.choice(["wcap", "wcap", "new", "walign", "shrunk"])
    if flavor.get("illbehaved") and rng.random() < 0.2:
        # the corner the random walk reaches slowly: a NEVER-ALLOCATED vector meets an ill-behaved callback
        n, extra, st = 0, 0, rng.choice(["new", "wcap"])
    if st == "wcap":
        ops.append("wcap 0 %d" % (n + extra))
    elif st == "new":
        ops.append("new 0")
    elif st == "walign":
        ops.append("walign 0 %d %d" % (n + extra, rng.choice([16, 32, 64, 256])))
    else:
        ops += ["wcap 0 2", "shrinkfit 0"]
    dup = rng.random() < 0.2
    for k in range(n):
        ops.append("push 0" + ((" =%d" % rng.choice([1, 2, 3])) if dup else ""))
    kind = rng.choice(flavor.get("iter_kinds", ["drain", "splice", "splice", "dfilter", "intoiter"]))
    s = rng.randint(0, n)
    e = rng.randint(s, n)
    w = e - s
    fresh = n
    if kind in ("drain", "splice"):
        bs = rng.choice(["i%d" % s] + (["u"] if s == 0 else []) + (["e%d" % (s - 1)] if s > 0 else []))
        be = rng.choice(["e%d" % e] + (["u"] if e == n else []) + (["i%d" % (e - 1)] if e > 0 else []))
        if kind == "drain":
            ops.append("drain 0 0 %s %s" % (bs, be))
        else:
            r = rng.choice([0, 1, max(w - 1, 0), w, w + 1, w + 3, rng.randint(0, w + 2)])
            if flavor.get("illbehaved") and rng.random() < 0.6:
                sc = "".join(rng.choice("SSN") for _ in range(r + rng.randint(1, 3)))
            else:
                sc = "S" * r
            if flavor.get("illbehaved") and sc and rng.random() < 0.5:
                # a lying exact size hint: too small (also by one), too large, absurd
                sc = "h%d:%s" % (rng.choice([0, 1, 2, 3, 7, max(sc.count("S") - 1, 1), len(sc) + 2, 1000]), sc)
            if flavor.get("panic") and sc and ":" not in sc and rng.random() < 0.3:
                k = rng.randrange(len(sc)); sc = sc[:k] + "P" + sc[k + 1:]
            ops.append("splice 0 0 %s %s %s" % (bs, be, sc or "-"))
            fresh += r + 3
    elif kind == "dfilter":
        w = n
        sc = "".join(rng.choice("TF") for _ in range(n + 1))
        if flavor.get("panic") and rng.random() < 0.4:
            k = rng.randrange(len(sc)); sc = sc[:k] + "P" + sc[k + 1:]
        ops.append("dfilter 0 0 %s" % sc)
    else:
        w = n
        ops.append("intoiter 0 0")
    total = rng.randint(0, w + 2)
    clones = 0
    for _ in range(total):
        c = rng.random()
        if c < 0.08:
            ops.append("nth 0 %d" % rng.choice([0, 1, 2, 3, w, w + 1]))
        elif c < 0.11 and kind != "dfilter":
            ops.append("nthb 0 %d" % rng.choice([0, 1, 2, w]))
        elif c < 0.13:
            ops.append(rng.choice(["count 0", "last 0"]))
        elif c < 0.5 or kind == "dfilter":
            ops.append("next 0")
        elif c < 0.9:
            ops.append("nextb 0")
        else:
            ops.append("hint 0")
        if kind == "intoiter" and rng.random() < 0.25 and clones < 1 and flavor.get("cloneit", True):
            ops.append("cloneit 0 1"); clones += 1; fresh += n
            if rng.random() < 0.5:
                ops.append(rng.choice(["next 1", "nextb 1", "asslice 1", "dropit 1"]))
    if rng.random() < 0.3:
        ops.append("hint 0")
    if kind == "intoiter" and rng.random() < 0.3:
        ops.append("asslice 0")
    if flavor.get("forget") and rng.random() < 0.6:
        ops.append("forget 0")
    else:
        ops.append("dropit 0")
    if clones and rng.random() < 0.7:
        ops += [rng.choice(["next 1", "nextb 1", "asslice 1"]), "dropit 1"]
    if kind != "intoiter":
        ops += rng.sample(["push 0", "pop 0", "insert 0 0", "remove 0 0", "clone 0 1", "shrinkfit 0", "trunc 0 1", "reserve 0 3"], rng.randint(0, 3))
    hdr = "H %s cls=%s" % (hid, cls)
    if flavor.get("clone_panics") and clones and cls in TRACKED and n > 0 and rng.random() < 0.5:
        # a Clone implementation that panics while the iterator is being cloned
        hdr += " cp=" + ",".join(map(str, sorted(set(rng.randrange(n) for _ in range(rng.choice([1, 1, 2]))))))
    elif flavor.get("panic") and cls in TRACKED and fresh > 0 and rng.random() < 0.7:
        # prefer identities inside the iterator's window (the elements pushed first have ids 0..n-1)
        pool = list(range(s, e)) if (kind in ("drain", "splice") and e > s and rng.random() < 0.7) else list(range(max(n, 1)))
        ids = sorted(set(rng.choice(pool) for _ in range(rng.choice([1, 1, 2]))))
        hdr += (" dp=" if rng.random() < 0.8 else " cp=") + ",".join(map(str, ids))
    return hdr + " :: " + " ; ".join(ops)

FLAVORS = {
    "plain": {},
    "C01": {"iter_share": 0.4, "malformed": 0.06},
    "C02": {"iter_share": 0.4, "malformed": 0.04, "classes": TRACKED},
    "C03": {"iter_share": 0.2, "malformed": 0.04, "weights": {"shrinkfit": 3, "shrinkto": 2, "reserve": 2, "reservex": 2, "clear": 3, "splice": 1.5, "splitoff": 2}},
    "C04": {"iter_share": 0.45, "panic": True, "classes": TRACKED, "malformed": 0.05, "weights": {"clear": 5, "trunc": 2.5, "macrep": 4, "resize": 2, "extslice": 1.5, "clone": 2, "fromslice": 2, "extwithin": 2, "retain": 2, "dedupby": 2}},
    "C05": {"iter_share": 0.6, "forget": True, "classes": TRACKED + TRACKED + ["8x8c", "3x1c", "16x16c", "64x64c", "8x8k"], "malformed": 0.03, "weights": {"drain": 2, "splice": 2, "dfilter": 2, "intoiter": 2, "iterstep": 1.5, "iterend": 2}},
    "C06": {"iter_share": 0.2, "start": "never", "maxops": 6, "malformed": 0.05},
    "C07": {"iter_share": 0.15, "malformed": 0.03, "weights": {"reserve": 3, "reservex": 3, "shrinkfit": 2, "shrinkto": 3, "spare": 3, "splitspare": 3}},
    "C08": {"start": "overaligned", "malformed": 0.03, "weights": {"shrinkfit": 3, "clear": 3, "shrinkto": 2, "reserve": 2, "splitoff": 2, "drainvec": 2, "intoiter": 1.5}},
    "C10": {"iter_share": 0.6, "malformed": 0.03, "weights": {"drain": 3, "splice": 3, "dfilter": 3, "intoiter": 3, "iterstep": 2.5}},
    "C11": {"malformed": 0.5},
    "C12": {"iter_share": 0.5, "iter_kinds": ["intoiter"], "classes": TRACKED + ["8x8k", "8x8k"], "malformed": 0.03, "clone_panics": True, "weights": {"clone": 4, "intoiter": 4, "iterstep": 2}},
    "C14": {"raw": True, "malformed": 0.03, "weights": {"rawrt": 12}},
    "C15": {"malformed": 0.02, "weights": {"cmp": 25, "clone": 3, "push": 2}},
    "C17": {"iter_share": 0.5, "illbehaved": True, "classes": TRACKED, "malformed": 0.03, "weights": {"splice": 4, "extend": 3, "fromiter": 3, "retain": 2, "dedupby": 2, "dfilter": 2}},
    "C18": {"malformed": 0.02},
}

SIZES = {"1x1": 1, "2x2": 2, "3x1": 3, "8x8": 8, "24x8": 24, "16x16": 16, "64x64": 64, "2048x8": 2048}

def size_args(rng, sz):
    bases = ["M", "M/2", "M/4", "M/8", "M/3", "M/16", "M/24", "M/64", "M/2048", "M/%d" % sz, "M/2/%d" % sz, "M/%d" % (2 * sz)]
    a = rng.choice(bases) + rng.choice(["", "", "+1", "+2", "-1", "-2", "-24", "-32", "+7"])
    if rng.random() < 0.15:
        a = rng.choice(["0", "1", "5", "300"])
    return a

def sizes_history(rng, hid):
    """C09: one size-taking entry point with a count near the representable limits; both profiles;
    own process (the expected outcome is a panic or the allocation-error abort)"""
    cls = rng.choice(list(SIZES))
    sz = SIZES[cls]
    n = size_args(rng, sz)
    pre = rng.choice([["new 0"], ["new 0", "push 0"], ["wcap 0 3", "push 0", "push 0"], ["walign 0 2 64", "push 0"]])
    kind = rng.choice(["wcap", "walign", "reserve", "reservex", "resize", "resizewith", "macrep", "reserve", "wcap"])
    if kind == "wcap":
        ops = ["wcap 0 %s" % n]
    elif kind == "walign":
        ops = ["walign 0 %s %s" % (n, rng.choice(["8", "16", "64", "4096", "M/2+1", "32"]))]
    elif kind == "macrep":
        ops = ["macrep 0 %s" % rng.choice(["18446744073709551615", "9223372036854775808", "2305843009213693952", "1152921504606846976", "4611686018427387904", "3"])]
    else:
        ops = pre + ["%s 0 %s" % (kind, n)]
    ops += ["push 0", "pop 0"]
    return "H %s cls=%s prof=dr child=1 :: %s" % (hid, cls, " ; ".join(ops))

SENTINEL_MAKERS = ["new 0", "default 0", "mac0 0", "wcap 0 0", "fromslice 0 0", "frommut 0 0", "fromiter 0 -", "macrep 0 0",
                   "new 9 ; clone 9 0", "new 9 ; drainvec 9 0", "wcap 9 3 ; push 9 ; drainvec 9 8 ; drop 8 ; drainvec 9 0", "new 9 ; splitoff 9 0 0"]
PARTNERS = [None, "new 1", "wcap 1 4", "wcap 1 2 ; shrinkfit 1", "wcap 1 3 ; push 1 ; push 1", "wcap 1 2 ; push 1 ; clear 1", "walign 1 0 64"]
SENTINEL_OPS = ["push 0", "pop 0", "insert 0 0", "insert 0 1", "remove 0 0", "swaprm 0 0", "trunc 0 0", "trunc 0 3", "clear 0",
                "resize 0 0", "resize 0 2", "resizewith 0 0 -", "resizewith 0 2 -", "extslice 0 0", "extslice 0 2", "extend 0 -", "extend 0 SS",
                "extwithin 0 u u", "extwithin 0 i0 e0", "extwithin 0 i0 e1", "append 0 1", "append 1 0", "dedup 0", "dedupby 0 T", "dedupkey 0",
                "retain 0 T", "rmitem 0 1", "reserve 0 0", "reserve 0 1", "reservex 0 0", "reservex 0 2", "shrinkfit 0", "shrinkto 0 0",
                "shrinkto 0 1", "spare 0", "splitspare 0", "index 0 0", "slice 0 u u", "slice 0 i0 e0", "slice 0 i0 e1", "cmp 0 1", "cmp 1 0",
                "clone 0 2", "drainvec 0 2", "splitoff 0 2 0", "splitoff 0 2 1", "leak 0", "drop 0", "rawrt 0 1",
                "drain 0 0 u u ; next 0 ; nextb 0 ; hint 0 ; dropit 0", "drain 0 0 u u ; nextb 0 ; next 0 ; forget 0", "drain 0 0 i0 e0 ; nextb 0 ; dropit 0",
                "drain 0 0 i0 e1", "splice 0 0 u u - ; nextb 0 ; next 0 ; dropit 0", "splice 0 0 u u SSS ; next 0 ; nextb 0 ; hint 0 ; dropit 0",
                "splice 0 0 i0 e0 SS ; dropit 0", "splice 0 0 u u SSSSS ; forget 0", "dfilter 0 0 TF ; next 0 ; hint 0 ; dropit 0", "dfilter 0 0 - ; forget 0",
                "intoiter 0 0 ; next 0 ; nextb 0 ; hint 0 ; asslice 0 ; cloneit 0 1 ; next 1 ; dropit 1 ; dropit 0", "intoiter 0 0 ; forget 0", "intoiter 0 0 ; nth 0 1 ; nth 0 9 ; dropit 0", "intoiter 0 0 ; nthb 0 1 ; count 0 ; dropit 0", "intoiter 0 0 ; next 0 ; last 0 ; dropit 0", "drain 0 0 u u ; nthb 0 0 ; last 0 ; dropit 0", "dfilter 0 0 TFT ; count 0 ; dropit 0", "splice 0 0 u u SS ; count 0 ; dropit 0", "intoiter 0 0 ; nextb 0 ; nth 0 L ; dropit 0", "drain 0 0 u u ; nth 0 1 ; nextb 0 ; nth 0 5 ; dropit 0", "splice 0 0 u u S ; nth 0 2 ; dropit 0", "dfilter 0 0 TFTTF ; nth 0 1 ; dropit 0",
                "intoiter 0 0 ; cloneit 0 1 ; dropit 0 ; nextb 1 ; asslice 1 ; dropit 1"]

def sentinel_scenario(rng, hid, k=None):
    """C06: one entry point (with its iterator methods) on a never-allocated vector obtained in one of the
    documented ways, next to a partner vector in some storage state, followed by a probe"""
    n = len(SENTINEL_MAKERS) * len(SENTINEL_OPS)
    k = rng.randrange(n) if k is None else k % n
    mk = SENTINEL_MAKERS[k % len(SENTINEL_MAKERS)]
    op = SENTINEL_OPS[(k // len(SENTINEL_MAKERS)) % len(SENTINEL_OPS)]
    partner = rng.choice(PARTNERS)
    cls = rng.choice(CLASSES)
    ops = [mk] + ([partner] if partner else []) + [op] + rng.sample(["push 0", "pop 0", "reserve 0 1", "clone 0 3", "drop 0", "cmp 0 1", "extslice 0 1"], rng.randint(0, 3))
    return "H %s cls=%s prof=dr :: %s" % (hid, cls, " ; ".join(ops))

def seed_for(ctx, salt=""):
    return (ctx.seed * 1000003 + zlib.crc32((ctx.pid + salt).encode())) & 0xffffffff

def generate(ctx, P):
    pid = ctx.pid
    if pid not in FLAVORS and pid != "C09":
        return []
    rng = random.Random(seed_for(ctx))
    n = P.get("quick_n", 1500) if ctx.tier == "quick" else P.get("thorough_n", 12000)
    if pid == "C09":
        return [sizes_history(rng, "z%d" % k) for k in range(n)]
    fl = FLAVORS[pid]
    if pid == "C06":
        out = []
        total = len(SENTINEL_MAKERS) * len(SENTINEL_OPS)
        m = n // 2 if ctx.tier == "quick" else total * 3
        start = rng.randrange(total)
        for k in range(m):
            out.append(sentinel_scenario(rng, "n%d" % k, (start + k * 7) if ctx.tier == "quick" else k))
        for k in range(n - n // 2):
            out.append(make(rng, fl, "g%d" % k))
        return out
    if pid == "C18":
        out = []
        for k in range(n // 3):
            base = make(rng, {"malformed": 0.02, "maxops": 8, "classes": ["8x8", "3x1", "64x64", "2048x8", "16x16c"]}, "f%d" % k)
            for af in rng.sample(range(0, 5), 3):
                hdr, body = base.split("::", 1)
                out.append("H f%d_%d %s af=%d child=1 ::%s" % (k, af, " ".join(hdr.split()[2:]), af, body))
        return out
    out = []
    share = fl.get("iter_share", 0.0)
    for k in range(n):
        if rng.random() < share:
            out.append(iter_scenario(rng, fl, "s%d" % k))
        else:
            out.append(make(rng, fl, "g%d" % k))
    return out
