import json,sys,glob
for f in sorted(glob.glob('/verif/replays/%s_*.json' % sys.argv[1]))[:int(sys.argv[2]) if len(sys.argv)>2 else 4]:
    r=json.load(open(f))
    print(f.split('/')[-1]); print(' H:',r.get('history')); print(' verdicts:',r.get('verdicts'),' fate:',r.get('fate'))
    m=r.get('mismatch') or {}
    print(' at',m.get('at'),m.get('why')); print('  M:',m.get('model')); print('  I:',m.get('impl'))
