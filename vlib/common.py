import os, sys, subprocess, hashlib, json, time, fcntl, contextlib

VERIF = os.path.dirname(os.path.dirname(os.path.abspath(__file__)))
REPO = os.environ.get("VERIF_REPO", "/repo")
COQ = os.path.join(VERIF, "coq")
CACHE = os.path.join(VERIF, ".cache")
EVID = os.path.join(VERIF, "evidence")
REPLAYS = os.path.join(VERIF, "replays")
GUARD = "minivec_verif"
NCPU = os.cpu_count() or 4

ENV = dict(os.environ)
ENV.update({"CARGO_NET_OFFLINE": "true", "CARGO_TERM_COLOR": "never"})

def log(*a):
    print(*a, file=sys.stderr, flush=True)

def run(cmd, cwd=None, timeout=1800, env=None, input=None):
    """run, capture stdout+stderr; returns (rc, text)"""
    e = dict(ENV)
    if env:
        e.update(env)
    try:
        p = subprocess.run(cmd, cwd=cwd, env=e, input=input, stdout=subprocess.PIPE,
                           stderr=subprocess.STDOUT, timeout=timeout, text=True, errors="replace",
                           shell=isinstance(cmd, str))
        return p.returncode, p.stdout
    except subprocess.TimeoutExpired as ex:
        out = ex.stdout or ""
        if isinstance(out, bytes):
            out = out.decode("utf8", "replace")
        return 124, out + "\n[timeout after %ss]" % timeout

def sha(data):
    if isinstance(data, str):
        data = data.encode()
    return hashlib.sha256(data).hexdigest()

def tree_files(root, exts, skip=("target", ".git", ".cache")):
    out = []
    for d, ds, fs in os.walk(root):
        ds[:] = sorted(x for x in ds if x not in skip)
        for f in sorted(fs):
            if f.endswith(exts):
                out.append(os.path.join(d, f))
    return out

def repo_hash():
    h = hashlib.sha256()
    for f in tree_files(REPO, (".rs", ".toml", ".lock")):
        h.update(os.path.relpath(f, REPO).encode())
        with open(f, "rb") as fh:
            h.update(hashlib.sha256(fh.read()).digest())
    return h.hexdigest()[:16]

def verif_hash():
    h = hashlib.sha256()
    for sub, exts in (("coq", (".v", "_CoqProject")), ("harness", (".rs", ".toml")), ("driver", (".ml",)),
                      ("vlib", (".py",)), ("rs2v", (".rs", ".toml")), ("corpus", ("",))):
        for f in tree_files(os.path.join(VERIF, sub), exts):
            if "/Gen/" in f:
                continue
            h.update(os.path.relpath(f, VERIF).encode())
            with open(f, "rb") as fh:
                h.update(hashlib.sha256(fh.read()).digest())
    kf = os.path.join(VERIF, "known_findings.json")
    if os.path.exists(kf):
        h.update(open(kf, "rb").read())
    return h.hexdigest()[:16]

@contextlib.contextmanager
def locked(name):
    os.makedirs(CACHE, exist_ok=True)
    fh = open(os.path.join(CACHE, name + ".lock"), "w")
    fcntl.flock(fh, fcntl.LOCK_EX)
    try:
        yield
    finally:
        fcntl.flock(fh, fcntl.LOCK_UN)
        fh.close()

def write_if_changed(path, text):
    try:
        if open(path).read() == text:
            return False
    except OSError:
        pass
    os.makedirs(os.path.dirname(path), exist_ok=True)
    tmp = path + ".tmp%d" % os.getpid()
    with open(tmp, "w") as f:
        f.write(text)
    os.replace(tmp, path)
    return True

def cache_get(key):
    p = os.path.join(CACHE, "stage", key + ".json")
    try:
        return json.load(open(p))
    except (OSError, ValueError):
        return None

def cache_put(key, val):
    p = os.path.join(CACHE, "stage", key + ".json")
    os.makedirs(os.path.dirname(p), exist_ok=True)
    tmp = p + ".tmp%d" % os.getpid()
    json.dump(val, open(tmp, "w"))
    os.replace(tmp, p)
