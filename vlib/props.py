"""per-property definitions and the decision procedure of DESIGN.md 3.7"""
import os, re, json, time
import json
from common import *
import coqstage

TRUSTED_COMMON = [
    "Coq 8.16.1 kernel (coqc); vm_compute is used, native_compute is not",
    "no axioms: `Print Assumptions` of every property theorem must say `Closed under the global context` (allowlist empty)",
    "rs2v (the syn-based translator of /verif/rs2v) and coq/Eval.v (the semantics given to the dumped syntax)",
    "coq/Prims.v (which checked machine primitive a method / allocator / pointer call in a translated body denotes) and the "
    "function-boundary semantics and assumptions of the method-body ties (EquivElem.v: returning, param_dropped_on_unwind, len_ok)",
    "vlib/model.py + vlib/implside.py: the verdict rules of the correspondence run (first divergence decides, premises, monitor relevance: DESIGN.md 13)",
]

class Ctx:
    def __init__(self, pid, tier, seed, replay):
        self.pid, self.tier, self.seed, self.replay = pid, tier, seed, replay
        self.notes = []

# property id -> spec.  Each translator-tie lemma (`equiv`) is an obligation of exactly ONE property -- the one
# whose statement is about what that function computes -- so that a rewrite of one function is reported
# once, by its owner (plus whatever the monitors show to fail), not by every property that uses the model.
PROPS = {}

def prop(pid, **kw):
    kw.setdefault("equiv", [])
    kw.setdefault("impl", None)
    kw.setdefault("trusted", [])
    PROPS[pid] = kw

HAND = ("the hand-written part of coq/Machine.v (element shifting, iterators, guards, unwinding, implicit drops) is MODELLED, "
        "not verified against the source: its tie is the correspondence run (real crate under the checking allocator with "
        "identity-tracked elements vs. the machine extracted to OCaml, traces compared per operation)")
EXTR = "extraction to OCaml with ExtrOcamlBasic only (no Extract Constant of ours) and driver/driver.ml"
UBDEF = ("the machine's catalogue of UB kinds is the definition of memory unsafety used; Rust's aliasing model, provenance and "
         "optimiser-dependent manifestations of UB are not modelled")

prop("C01", title="operation sequences behave like std Vec", equiv=["EquivElem.push_equiv", "EquivPop.pop_equiv", "EquivInsert.insert_equiv", "EquivRemove.remove_equiv", "EquivSwapRemove.swap_remove_equiv", "EquivElem.truncate_equiv", "EquivElem.clear_equiv", "EquivElem.set_len_equiv", "EquivAppend.append_equiv", "EquivAppend.is_empty_equiv", "EquivResize.loop_equivR", "EquivResize.resize_equiv", "EquivResizeWith.loop_equivW", "EquivResizeWith.resize_with_equiv", "EquivExtend.loop_equivE", "EquivExtend.extend_equiv", "EquivExtend.loop_equivFI", "EquivExtend.from_iter_equiv"], trusted=[HAND, EXTR, "std::vec::Vec as the oracle of the list-level spec (three-way run)"])
prop("C02", title="exactly-once ownership", equiv=["EquivDrain.into_drop_equiv", "EquivDropGuard.loop_equivG", "EquivDropGuard.dropguard_drop_equiv", "EquivDropGuard.loop_equivDD", "EquivDropGuard.drain_drop_body_equiv", "EquivDropGuard.loop_equivSP", "EquivDropGuard.splice_drop_body_equiv"], trusted=[HAND, EXTR, UBDEF])
prop("C03", title="allocator contract", equiv=["EquivGrow.grow_equiv", "EquivDrop.drop_equiv"], trusted=[HAND, EXTR, UBDEF, "the GlobalAlloc contract as written in Machine.do_realloc/do_dealloc"])
prop("C04", title="panic safety", equiv=["EquivDrain.filter_guard_equiv"], trusted=[HAND, EXTR, UBDEF])
prop("C05", title="forget safety", equiv=["EquivDrain.drain_filter_equiv"], trusted=[HAND, EXTR, UBDEF])
prop("C06", title="never-allocated vector", equiv=["EquivAsPtr.as_ptr_equiv", "EquivAsPtr.new_equiv", "EquivAsPtr.is_default_equiv", "EquivDelegNew.default_is_new"], trusted=[HAND, EXTR, UBDEF], profiles="dr")
prop("C07", title="capacity honest / reservation contract / stability", equiv=["EquivCap.len_equiv", "EquivCap.capacity_equiv", "EquivCap.reserve_exact_equiv", "EquivCap.shrink_to_fit_equiv", "EquivCap.shrink_to_equiv", "EquivReserve.reserve_equiv", "EquivReserve.reserve_equiv_policy", "EquivCtor.with_capacity_equiv"], trusted=[HAND, EXTR])
prop("C08", title="alignment", equiv=["EquivAlign.alignment_equiv", "EquivMaxAlign.max_align_equiv", "EquivCtor.with_alignment_equiv"], trusted=[HAND, EXTR])
prop("C09", title="impossible sizes", equiv=["next_aligned_equiv", "make_layout_equiv"], quick_n=480, thorough_n=4000, child_timeout=15,
     trusted=[HAND, EXTR, "Eval.v's reading of usize arithmetic (panic in debug, wrap in release), checked_add/checked_mul and Layout::from_size_align"])
prop("C10", title="iterator protocol", equiv=["EquivIter.drain_next_equiv", "EquivIter.drain_next_back_equiv", "EquivIter.into_next_equiv", "EquivIter.into_next_back_equiv", "EquivIter.into_len_equiv", "EquivIter.into_size_hint_equiv", "EquivDrain.into_new_equiv", "EquivIter.splice_next_equiv", "EquivIter.splice_next_back_equiv", "EquivIter.drain_size_hint_equiv", "EquivIter.splice_size_hint_equiv", "EquivFilter.loop_equivF", "EquivFilter.filter_next_equiv", "EquivFilter.filter_size_hint_equiv", "EquivDelegIter.into_iter_is_into_iter_new", "EquivIter.into_as_slice_equiv"], trusted=[HAND, EXTR])
prop("C11", title="out-of-range arguments rejected atomically", equiv=["EquivDrain.drain_equiv", "EquivDrain.splice_equiv"], trusted=[HAND, EXTR])
prop("C12", equiv=["EquivClone.loop_equivC", "EquivClone.clone_equiv", "EquivClone.clone_surface", "EquivDrain.into_clone_equiv", "EquivExtSlice.loop_equivS", "EquivExtSlice.extend_from_slice_equiv", "EquivExtSlice.loop_equivFS", "EquivExtSlice.from_slice_equiv"], title="clones deep and independent", trusted=[HAND, EXTR, UBDEF])
prop("C13", title="handle is one pointer wide with a niche", impl="sizes",
     trusted=["coq/Layout.v: rustc's repr(Rust) struct layout rules are MODELLED (40 lines), not verified; "
              "rustc is the observed oracle (size_of/align_of table printed by the harness)"])
prop("C14", title="raw-pointer round trip", equiv=["EquivData.data_equiv", "EquivData.as_mut_ptr_equiv", "EquivRaw.into_raw_parts_equiv", "EquivRaw.from_raw_part_equiv", "EquivRaw.from_raw_parts_equiv"], trusted=[HAND, EXTR, UBDEF])
prop("C15", title="slice semantics of comparisons", equiv=["EquivDelegSlice.slice_views_are_deref", "EquivDeref.deref_equiv"], trusted=[HAND, EXTR, "the delegation shapes are read from syntax (rs2v deleg_shape); core's slice impls are trusted"])
prop("C16", title="compile-time rules", impl="rustc",
     trusted=["rustc is the observed oracle: the corpus of must-not-compile / must-compile programs is compiled against the current crate",
              "coq/Static.v checks signature tables only; Rust's borrow checker, auto-trait derivation and variance are NOT modelled"])
prop("C17", title="ill-behaved safe callbacks", equiv=["EquivRetain.loop_equiv", "EquivRetain.retain_equiv", "EquivRetain.loop_equivD", "EquivRetain.dedup_by_equiv", "EquivDelegDedup.dedup_is_dedup_by_eq", "EquivDelegDedup.dedup_by_key_is_dedup_by_on_keys"], trusted=[HAND, EXTR, UBDEF])
prop("C18", title="allocation failure", equiv=[], quick_n=480, thorough_n=3000, profiles="dr", trusted=[HAND, EXTR])
prop("C19", title="serde", equiv=["EquivSerde.map_size_hint_equiv", "EquivSerde.inplace_reservation", "EquivSerde.fresh_reservation", "EquivSerde.upfront_reservation_bounded", "EquivSerdeSeq.loop_equivQ", "EquivSerdeSeq.visit_seq_equiv", "EquivSerde.serialize_delegates_to_collect_seq"], impl="serde",
     trusted=["VecVisitor::visit_seq is regenerated and tied (EquivSerdeSeq.v) in a world where the SeqAccess is a script of answers; the element loop of the in-place visitor (next_element_seed into &mut self.0[i]) and Serialize are not modelled in Coq: they are exercised by the harness with a recording serializer and a scripted SeqAccess", "serde's own traits and serde_json are trusted as the observed oracle of the probe"])

def coq_side(ctx, P):
    """translator + build + property file + audit.  returns dict"""
    pid = ctx.pid
    out = {"obligations": [], "failed": [], "translate": None, "build": None, "prop": None, "audit": []}
    tr = coqstage.translate()
    out["translate"] = tr
    if not tr["ok"]:
        out["failed"].append({"what": "translator", "detail": tr["log"][-3000:]})
        return out
    if not os.path.exists(os.path.join(COQ, "Properties", pid + ".v")):
        out["failed"].append({"what": "coq", "detail": "Properties/%s.v does not exist yet" % pid})
        return out
    targets = ["Properties/%s.vo" % pid]
    eq = [(e.split(".", 1) if "." in e else ["Equiv", e]) for e in P["equiv"]]
    for f in sorted(set(f for f, _ in eq)):
        targets.insert(0, f + ".vo")
    b = coqstage.build(targets)
    out["build"] = b
    names = coqstage.theorem_names(os.path.join(COQ, "Properties", pid + ".v"))
    out["obligations"] = ["Properties/%s.v:%s %s" % (pid, k, n) for k, n in names] + \
                         ["%s.v:Lemma %s (translated body = model, re-proved against the regenerated AST)" % (f, e) for f, e in eq] + ["audit: no Admitted/admit/Axiom/Parameter/...",
                                                                        "audit: Print Assumptions closed (allowlist empty)"]
    if not b["ok"]:
        for e in b.get("errors", []) or [b.get("error")]:
            if e:
                out["failed"].append({"what": "coq", "file": e.get("file"), "decl": e.get("decl"), "detail": e.get("msg")})
        if not out["failed"]:
            out["failed"].append({"what": "coq", "detail": b["log"][-3000:]})
        return out
    pr = coqstage.compile_property(pid)
    out["prop"] = pr
    if not pr["ok"]:
        e = pr.get("error") or {}
        out["failed"].append({"what": "coq", "file": e.get("file"), "decl": e.get("decl"), "detail": e.get("msg") or pr["log"][-2000:]})
    bad_ax = [x for x in pr["axioms"] if x not in coqstage.AX_ALLOW]
    if bad_ax:
        out["failed"].append({"what": "assumptions", "detail": "axioms outside the allowlist: %s" % ", ".join(bad_ax)})
    if ctx.tier == "thorough" and pr["ok"]:
        import model
        ck = model.coqchk(pid)
        out["coqchk"] = ck
        out["obligations"].append("coqchk -o MV.Properties.%s (independent checker; axioms: %s)" % (pid, ck["axioms"] or "<none>"))
        if not ck["ok"] or (ck["axioms"] not in ("<none>", "")):
            out["failed"].append({"what": "coqchk", "detail": (ck["log"] or ck["axioms"])[:800]})
    hits = coqstage.audit()
    out["audit"] = hits
    if hits:
        out["failed"].append({"what": "audit", "detail": "; ".join(hits[:10])})
    return out

def decide(ctx, P, t0, write_evidence, write_replay, known):
    pid = ctx.pid
    try:
        for f in os.listdir(REPLAYS):
            if f.startswith(pid + "_"):
                os.remove(os.path.join(REPLAYS, f))
    except OSError:
        pass
    cs = coq_side(ctx, P)
    violations = []     # list of dict(kind, replay)
    impl_cov = {}
    # implementation side (harness) -- always runs, it is what produces replays
    import implside
    ir = implside.run(ctx, P, cs)
    impl_cov = ir.get("coverage", {})
    known_lines = []
    for v in ir.get("violations", []):
        k = implside.match_known(pid, v, known)
        if k:
            if ("KNOWN-FINDING: property=%s %s" % (pid, k)) not in known_lines:
                known_lines.append("KNOWN-FINDING: property=%s %s" % (pid, k))
        else:
            violations.append(v)
    failed = cs["failed"]
    out_lines = []
    nviol = 0
    for v in violations[:5]:
        rp = write_replay(pid, v.get("tag", "impl"), v)
        out_lines.append("VIOLATION property=%s replay=%s" % (pid, rp))
        nviol += 1
    mism = []
    for m in ir.get("mismatches", []):
        k = implside.match_known(pid, m, known)
        if k:
            if ("KNOWN-FINDING: property=%s %s" % (pid, k)) not in known_lines:
                known_lines.append("KNOWN-FINDING: property=%s %s" % (pid, k))
        else:
            mism.append(m)
    if not violations:
        for m in mism[:3]:
            rp = write_replay(pid, m.get("tag", "corr"), m)
            out_lines.append("VIOLATION property=%s replay=%s no-failing-input-found" % (pid, rp))
            nviol += 1
            failed = failed + [{"what": "correspondence", "detail": "history %s" % m.get("history")}]
    if cs["failed"] and not violations and not mism:
        # a proof obligation / the translator no longer checks and no concrete failing input was found
        rp = write_replay(pid, "unproved", {"property": pid, "no_longer_checks": cs["failed"],
                                            "search": ir.get("search", "implementation-side monitors and the correspondence run found no failing input")})
        out_lines.append("VIOLATION property=%s replay=%s no-failing-input-found" % (pid, rp))
        nviol += 1
    nobl = len(cs["obligations"]) or 1
    ndis = nobl if not failed else max(0, nobl - len(failed))
    cov = {"obligations": nobl, "discharged": ndis,
           "checker_cmd": (cs["build"] or {}).get("cmd", "make -C coq Properties/%s.vo" % pid),
           "trusted_base": TRUSTED_COMMON + P["trusted"],
           "obligation_list": cs["obligations"],
           "failed": failed,
           "print_assumptions_closed": (cs["prop"] or {}).get("closed", 0),
           "axioms": (cs["prop"] or {}).get("axioms", []),
           "translator": (cs["translate"] or {}).get("log", ""),
           "known_findings_printed": known_lines}
    cov.update(impl_cov)
    if "samples" not in cov:
        cov["samples"] = cs["obligations"][:5]
    for l in known_lines:
        print(l)
    for l in out_lines:
        print(l)
    write_evidence(pid, ctx.tier, ctx.seed, cov, P["trusted"], time.time() - t0, nviol)
    if nviol == 0:
        print("OK property=%s tier=%s obligations=%d/%d wall=%.1fs" % (pid, ctx.tier, ndis, nobl, time.time() - t0))
    return 1 if nviol else 0
