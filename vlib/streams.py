"""history streams per property: committed corpus first, then the seeded generator"""
import os, json
from common import *
import hrun, implside

def histories_for(ctx, P):
    pid = ctx.pid
    out = []
    for l in implside.load_corpus():
        props = hrun.header(l).get("props", "")
        if pid in props.split(","):
            out.append(l)
    if ctx.replay:
        try:
            r = json.load(open(ctx.replay))
            if r.get("history"):
                out.insert(0, r["history"])
        except Exception:
            pass
    import gen
    out += gen.generate(ctx, P)
    return out
