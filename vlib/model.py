"""model side of the correspondence check: the Coq machine extracted to OCaml"""
import os, re, subprocess, shutil, time
from common import *
import hrun, coqstage

DRV = os.path.join(CACHE, "driver")

def build():
    """make Extract.vo (re-extracts when the model or the regenerated ASTs changed), compile driver"""
    with locked("driver"):
        b = coqstage.build(["Extract.vo"])
        if not b["ok"]:
            return None, b
        os.makedirs(DRV, exist_ok=True)
        srcs = [os.path.join(COQ, "model.ml"), os.path.join(COQ, "model.mli"), os.path.join(VERIF, "driver", "driver.ml")]
        binp = os.path.join(DRV, "model_driver")
        if not all(os.path.exists(s) for s in srcs):
            # Extract.vo up to date but the .ml files were cleaned: force re-extraction
            try:
                os.remove(os.path.join(COQ, "Extract.vo"))
            except OSError:
                pass
            b = coqstage.build(["Extract.vo"])
            if not b["ok"] or not all(os.path.exists(s) for s in srcs):
                return None, b
        if not os.path.exists(binp) or os.path.getmtime(binp) < max(os.path.getmtime(s) for s in srcs):
            for s in srcs:
                shutil.copy(s, DRV)
            rc, out = run(["ocamlfind", "ocamlopt", "-O2", "-w", "-a", "model.mli", "model.ml", "driver.ml", "-o", "model_driver"],
                          cwd=DRV, timeout=600)
            if rc != 0:
                return None, {"ok": False, "log": out, "errors": [{"file": "driver", "decl": None, "msg": out[-800:]}]}
        return binp, b

def run_model(binp, lines, timeout=240):
    """-> dict id -> list of trace lines"""
    res = {}
    if not lines:
        return res
    chunks = [lines[i::NCPU] for i in range(NCPU)]
    procs = []
    tmpd = os.path.join(CACHE, "tmp")
    os.makedirs(tmpd, exist_ok=True)
    for i, ch in enumerate(chunks):
        if not ch:
            continue
        f = os.path.join(tmpd, "model_%d_%d.hist" % (os.getpid(), i))
        open(f, "w").write("\n".join(ch) + "\n")
        procs.append((f, subprocess.Popen(["bash", "-c", "ulimit -s unlimited 2>/dev/null; ulimit -v 6000000; exec '%s' '%s'" % (binp, f)],
                                          stdout=subprocess.PIPE, stderr=subprocess.DEVNULL)))
    for f, p in procs:
        try:
            out, _ = p.communicate(timeout=timeout)
        except subprocess.TimeoutExpired:
            p.kill()
            out, _ = p.communicate()
        os.remove(f)
        cur, curid = None, None
        for l in out.decode("utf8", "replace").splitlines():
            if l.startswith("BEGIN "):
                curid, cur = l[6:].strip(), []
            elif l == "DONE":
                if curid is not None:
                    res[curid] = cur
                curid, cur = None, None
            elif cur is not None:
                cur.append(l)
    return res

FATAL = re.compile(r"^\d+ \S+ (ub:\S+|abort|allocabort:\S+|nofuel) ")

def fatal_outcome(mlines):
    for l in mlines:
        m = FATAL.match(l)
        if m:
            return m.group(1)
    return None

# ---------------------------------------------------------------- projections

VEC = re.compile(r"v(\d+)=(\d+),(\d+),([^,]+),(\[[^\]]*\])")

def project(pid, p, fields):
    """canonical projection of a parsed trace line"""
    out = [str(p["k"]), p["op"]]
    if "out" in fields:
        out.append(p["out"])
    if "ret" in fields:
        out.append("r=" + p["ret"])
    st = []
    for m in VEC.finditer(p["state"]):
        v, l, c, pl, ids = m.groups()
        s = "v" + v
        if "len" in fields:
            s += " len=" + l
        if "cap" in fields:
            s += " cap=" + c
        if "place" in fields:
            s += " at=" + pl
        if "null" in fields:
            s += " null=" + str(pl == "nul")
        if "ids" in fields:
            s += " " + ids
        st.append(s)
    out.append("; ".join(st))
    if "alloc" in fields:
        ev = p["alloc"]
        if pid in NO_DEALLOC_EVENTS:
            # capacity / alignment properties: which blocks are obtained and resized, with which layout;
            # how a block is RELEASED (and with which layout) is the allocator property's subject (C03)
            ev = ",".join(x for x in ev.split(",") if x and not x.startswith("d"))
        out.append("a=[%s]" % ev)
    if "elems" in fields:
        out.append("e=[%s]" % p["elems"])
    return " | ".join(out)

ALL = {"out", "ret", "len", "cap", "place", "ids", "alloc", "elems"}
NO_DEALLOC_EVENTS = {"C07", "C08"}
FIELDS = {
    "C01": {"out", "ret", "len", "ids"},
    "C02": {"out", "ret", "len", "ids", "elems"},
    "C03": {"place", "alloc", "cap"},
    "C04": {"out", "ret", "len", "ids", "elems"},
    "C05": {"out", "ret", "len", "ids", "elems"},
    "C06": ALL,
    "C07": {"cap", "place", "alloc"},
    "C08": {"place", "alloc"},
    "C09": {"out", "cap", "place", "alloc"},
    "C10": {"out", "ret", "len", "ids"},
    "C11": ALL,
    "C12": {"out", "ret", "len", "ids", "elems", "alloc"},
    "C14": ALL,
    "C15": {"out", "ret", "len", "ids"},
    "C17": {"out", "ret", "len", "ids", "elems", "alloc"},
    "C18": {"out", "alloc", "place", "cap", "len"},
}

# which operations a property's correspondence is about (None: every operation).  The FIRST line on which
# the two traces differ in ANY field decides: the history counts against the property only if that line
# is an operation the property speaks about and differs in one of the property's fields; otherwise
# the model stopped describing the implementation for a reason that is another property's business,
# and everything later in the history is a downstream effect (DESIGN.md section 13).
ITER_OPS = {"drain", "splice", "dfilter", "intoiter", "next", "nextb", "nth", "nthb", "count", "last", "hint",
            "asslice", "cloneit", "dropit", "forget"}
NOT_OWNERSHIP = {"hint", "cmp", "spare", "splitspare"}     # their results are numbers, not elements
REL_OPS = {
    "C10": ITER_OPS,
    "C11": {"insert", "remove", "swaprm", "splitoff", "drain", "splice", "extwithin", "shrinkto", "index", "slice", "trunc"},
    "C15": {"cmp"},
}
IRREL_OPS = {"C02": NOT_OWNERSHIP, "C04": NOT_OWNERSHIP, "C05": NOT_OWNERSHIP, "C12": NOT_OWNERSHIP, "C17": NOT_OWNERSHIP}

# operations whose OUTCOME (returns / panics) and result code belong to the capacity, alignment and allocator
# properties; at every other operation these properties only compare capacity, placement and allocator events
CAP_OPS = {"wcap", "walign", "reserve", "reservex", "shrinkfit", "shrinkto", "spare", "splitspare"}
OUT_AT_CAP_OPS = {"C03", "C07", "C08"}

# C12 / C14 / C17 speak about storage (allocator events, capacity, placement) only where their own
# operations run: the clone, the raw round trip, the operation that calls the ill-behaved callback and the
# steps / drop of the iterator that holds it.  Elsewhere a capacity or placement difference is the business
# of C03 / C07 / C08.
STORAGE = {"alloc", "cap", "place"}
STORAGE_OPS = {
    "C12": {"clone", "cloneit"},
    "C14": {"rawrt"},
    "C17": {"retain", "dedup", "dedupby", "dedupkey", "dfilter", "rmitem", "resizewith", "splice", "extend", "fromiter",
            "dropit", "forget", "next", "nextb", "nth", "nthb", "count", "last"},
}

def fields_at(pid, op):
    f = FIELDS.get(pid, ALL)
    if pid in OUT_AT_CAP_OPS and op in CAP_OPS:
        f = f | {"out", "ret"}
    if pid in STORAGE_OPS and op not in STORAGE_OPS[pid]:
        f = f - STORAGE
    return f

def op_relevant(pid, op):
    if pid in REL_OPS:
        # the closing line (final fate of every element, blocks released) is the business of the ownership
        # and allocator properties, not of the protocol / argument-checking / comparison properties
        return op in REL_OPS[pid]
    return op not in IRREL_OPS.get(pid, ())

# The closing line of a history reports the final fate of EVERY element ever created.  For a property with a
# premise (C04 a panic, C05 a forget, C12 a clone, C14 a raw round trip, C17 an ill-behaved callback) a
# difference there counts only if it concerns an element that was within reach of one of the property's
# premise operations: listed in a vector or iterator just before or after that operation, or named in its
# element events.  (Other differences are the business of C01 / C02, whose checks have no premise.)
def _premise_line(pid, line, toks, p):
    import implside
    if pid == "C04":
        return implside.user_panic_line(line, toks, p)
    if pid == "C05":
        return toks[0] == "forget"
    if pid == "C12":
        return toks[0] in ("clone", "cloneit")
    if pid == "C14":
        return toks[0] == "rawrt"
    if pid == "C17":
        return toks[0] in implside.PRED_OPS or any(implside.ILL_SCRIPT.match(x) for x in toks[1:])
    return True
END_PREMISE = {"C04", "C05", "C12", "C14", "C17"}

def _ids_of(p):
    ids = set()
    for grp in re.findall(r"\[([\d,]*)\]", p["state"] or ""):
        ids |= {int(x) for x in grp.split(",") if x}
    ids |= {int(x) for x in re.findall(r"\d+", p["elems"] or "")}
    return ids

# ---- the objects a premise property speaks about -------------------------------------------------------
# C04 / C05 / C12 / C14 / C17 are statements about the vectors (and iterators) that went through one of
# their premise operations, and about whatever those objects were later merged into or split from.  A
# divergence at an ordinary operation counts against such a property only if it concerns one of them: the
# operation's own object is in the family, or the state of a family vector differs.
ITER_TARGET = {"next", "nextb", "nth", "nthb", "count", "last", "hint", "asslice", "dropit", "forget"}
ITER_CREATE = {"drain", "splice", "dfilter", "intoiter"}
TWO_VEC = {"clone", "append", "splitoff", "drainvec", "cmp"}

def _ints(toks):
    out = []
    for x in toks[1:3]:
        out.append(int(x) if x.isdigit() else None)
    while len(out) < 2:
        out.append(None)
    return out

def family(pid, line, parsed, k):
    """(vector indices, iterator indices) in the family of pid after operations 0..k"""
    body = [o.split() for o in line.split("::", 1)[1].split(";") if o.split()]
    byk = {p["k"]: p for p in parsed}
    fv, fi, made = set(), set(), {}           # made: iterator -> the vector it was taken from
    for j, t in enumerate(body[:k + 1]):
        op = t[0]
        a0, a1 = _ints(t)
        if op in ITER_CREATE and a1 is not None:
            made[a1] = a0
        prem = _premise_line(pid, line, t, byk.get(j))
        if prem:
            if op in ITER_TARGET or op == "cloneit":
                fi |= {x for x in (a0, a1 if op == "cloneit" else None) if x is not None}
                if a0 in made and made[a0] is not None:
                    fv.add(made[a0])           # forgetting / stepping an iterator concerns its vector too
            else:
                fv |= {x for x in (a0, a1 if op in TWO_VEC else None) if x is not None}
                if op in ITER_CREATE and a1 is not None:
                    fi.add(a1)
        # propagation: buffers and elements move between objects
        if op in TWO_VEC and (a0 in fv or a1 in fv):
            fv |= {x for x in (a0, a1) if x is not None}
        if op in ITER_CREATE and a0 in fv and a1 is not None:
            fi.add(a1)
        if op == "cloneit" and a0 in fi and a1 is not None:
            fi.add(a1)
    return fv, fi

def concerns_family(pid, line, parsed, mp, ip):
    k = mp["k"]
    body = [o.split() for o in line.split("::", 1)[1].split(";") if o.split()]
    if k >= len(body):
        return True
    fv, fi = family(pid, line, parsed, k)
    t = body[k]
    a0, a1 = _ints(t)
    op = t[0]
    if op in ITER_TARGET or op == "cloneit":
        if a0 in fi or (op == "cloneit" and a1 in fi):
            return True
    else:
        if a0 in fv or (op in TWO_VEC and a1 in fv):
            return True
    mv = {m.group(1): m.group(0) for m in VEC.finditer(mp["state"] or "")}
    iv = {m.group(1): m.group(0) for m in VEC.finditer(ip["state"] or "")}
    return any(mv.get(str(v)) != iv.get(str(v)) for v in fv)

def end_concerns(pid, line, parsed, mp, ip):
    """does the difference on the closing line concern an element in reach of a premise operation of pid?"""
    ml, il = (mp["ret"] or "").split(";")[0], (ip["ret"] or "").split(";")[0]
    if ml == il:
        return True                 # the difference is not in the fates: keep it
    if len(ml) != len(il):
        return True
    diff = {j for j in range(len(ml)) if ml[j] != il[j]}
    body = [o.split() for o in line.split("::", 1)[1].split(";") if o.split()]
    byk = {p["k"]: p for p in parsed}
    reach = set()
    for k, toks in enumerate(body):
        if _premise_line(pid, line, toks, byk.get(k)):
            for kk in (k - 1, k):
                if kk in byk:
                    reach |= _ids_of(byk[kk])
    return bool(diff & reach)

def diff_fields(mp, ip):
    return {f for f in ALL if project("", mp, {f}) != project("", ip, {f})}

def compare_one(pid, line, mlines, res):
    """-> (n lines compared, mismatch or None)"""
    fields = FIELDS.get(pid, ALL)
    ilines = res["lines"]
    fo = fatal_outcome(mlines)
    n = 0
    for i, ml in enumerate(mlines):
        if i == 0:
            continue          # "H id"
        mp = hrun.parse_line(ml)
        if mp is None:
            return n, {"at": i, "model": ml, "impl": None, "why": "unparsable model line"}
        if mp["out"].startswith(("ub:", "nofuel")):
            return n, {"at": mp["k"], "model": ml, "impl": (ilines[i] if i < len(ilines) else "(process fate: %s)" % res["fate"]),
                       "why": "the model reaches %s: the modelled code misbehaves on this history" % mp["out"], "model_fatal": mp["out"]}
        if mp["out"] == "abort" or mp["out"].startswith("allocabort"):
            # the process must die by SIGABRT here (and, for allocation failure, name the size)
            ok = res["fate"] == "signal 6" and len([l for l in ilines if hrun.parse_line(l)]) == i - 1
            if ok and mp["out"].startswith("allocabort"):
                size = int(mp["out"].split(":")[1])
                # the standard handler names the size it was asked for
                ok = res.get("alloc_error") == size
            mf = [x for x in mp["alloc"].split(",") if x.startswith("f") and ":h" in x]
            af = [l[len("ALLOCFAIL "):].strip() for l in res.get("raw_lines", ilines) if l.startswith("ALLOCFAIL ")]
            if ok and mf and af and mf[-1] != af[0]:
                return n, {"at": mp["k"], "model": ml, "impl": "refused realloc saw " + af[0],
                           "why": "the block's header at the moment the request is refused differs (model: %s)" % mf[-1]}
            if not ok:
                return n, {"at": mp["k"], "model": ml, "impl": "fate=%s after %d lines, alloc_error=%s" % (res["fate"], len(ilines) - 1, res.get("alloc_error")),
                           "why": "model predicts %s" % mp["out"]}
            return n + 1, None
        if i >= len(ilines):
            return n, {"at": mp["k"], "model": ml, "impl": "(missing: process fate %s)" % res["fate"], "why": "implementation trace ends early"}
        ip = hrun.parse_line(ilines[i])
        if ip is None:
            return n, {"at": mp["k"], "model": ml, "impl": ilines[i], "why": "unparsable implementation line"}
        fields = fields_at(pid, mp["op"])
        a, b = project(pid, mp, fields), project(pid, ip, fields)
        n += 1
        if project(pid, mp, ALL) != project(pid, ip, ALL):
            df = diff_fields(mp, ip)
            import implside
            parsed = [x for x in (hrun.parse_line(y) for y in ilines[:i + 1]) if x]
            if a != b and op_relevant(pid, mp["op"]) and implside.premise_ok(pid, line, parsed, mp["k"]) and \
               (pid not in END_PREMISE or
                (end_concerns(pid, line, parsed, mp, ip) if mp["op"] == "end" else concerns_family(pid, line, parsed, mp, ip))):
                return n, {"at": mp["k"], "model": a, "impl": b, "why": "projection %s differs" % sorted(fields),
                           "op": mp["op"], "out_pair": [mp["out"], ip["out"]]}
            # the traces part ways here, in fields or at an operation this property does not speak about
            return n, {"elsewhere": True, "at": mp["k"], "op": mp["op"], "fields": sorted(df)}
    if res["fate"] != "done" and fo is None:
        return n, {"at": -1, "model": "(history completes)", "impl": "fate=%s" % res["fate"], "why": "implementation did not complete the history"}
    return n, None


def crosscheck_extraction(lines, traces, limit=60, timeout=900):
    """thorough tier: the same histories evaluated by vm_compute INSIDE Coq must give exactly the
    trace the extracted OCaml program printed (checks the extraction on the paths used).
    returns dict(checked, ok, log)"""
    sample = [l for l in lines if hrun.hid(l) in traces][:limit]
    if not sample:
        return {"checked": 0, "ok": True, "log": ""}
    def q(s):
        return '"' + s.replace('"', '""') + '"'
    body = ["From Coq Require Import String List.", "From MV Require Import Model.", "Import ListNotations.", "Open Scope string_scope.", ""]
    for k, l in enumerate(sample):
        tr = traces[hrun.hid(l)]
        body.append("Goal run_history %s =\n  [%s].\nProof. vm_compute. reflexivity. Qed.\n" % (q(l), ";\n   ".join(q(t) for t in tr)))
    d = os.path.join(CACHE, "tmp")
    os.makedirs(d, exist_ok=True)
    f = os.path.join(d, "cases_%d.v" % os.getpid())
    open(f, "w").write("\n".join(body))
    rc, out = run(["coqc", "-noglob", "-Q", COQ, "MV", f], cwd=d, timeout=timeout)
    for ext in (".v", ".vo", ".vok", ".vos", ".glob"):
        try:
            os.remove(f[:-2] + ext)
        except OSError:
            pass
    return {"checked": len(sample), "ok": rc == 0, "log": out[-1500:] if rc != 0 else ""}

def coqchk(pid, timeout=1500):
    """thorough tier: independent re-check of the compiled property file and everything it depends on"""
    rc, out = run(["coqchk", "-silent", "-o", "-Q", COQ, "MV", "MV.Properties.%s" % pid], cwd=COQ, timeout=timeout)
    m = re.search(r"\* Axioms:\s*(.*?)\n\s*\n|\* Axioms:\s*(.*)$", out, re.S)
    ax = (m.group(1) or m.group(2) or "").strip() if m else "?"
    return {"ok": rc == 0, "axioms": ax[:500], "log": out[-800:] if rc != 0 else ""}
