def compare(ctx, P, results):
    return {"violations": [], "compared": 0, "info": {"status": "model driver not built yet"}}
