"""build the Rust harness from /repo's working tree and run histories through it"""
import os, re, subprocess, signal, time
from common import *

HARN = os.path.join(VERIF, "harness")

def build(profile):
    """profile: 'd' or 'r'.  returns (binary path or None, log).
    The crate manifest is generated into .cache/hbuild so that the dependency path follows VERIF_REPO
    (default /repo); sources stay in /verif/harness/src."""
    with locked("harness_" + profile):
        import shutil
        bd = os.path.join(CACHE, "hbuild")
        os.makedirs(bd, exist_ok=True)
        man = open(os.path.join(HARN, "Cargo.toml")).read()
        man = man.replace('path = "/repo"', 'path = "%s"' % REPO)
        man = man.replace("[workspace]", "[[bin]]\nname = \"harness\"\npath = \"%s\"\n\n[workspace]" % os.path.join(HARN, "src", "main.rs"))
        write_if_changed(os.path.join(bd, "Cargo.toml"), man)
        lock = os.path.join(HARN, "Cargo.lock")
        if os.path.exists(lock):
            write_if_changed(os.path.join(bd, "Cargo.lock"), open(lock).read())
        os.makedirs(os.path.join(bd, ".cargo"), exist_ok=True)
        write_if_changed(os.path.join(bd, ".cargo", "config.toml"), "[net]\noffline = true\n")
        cmd = ["cargo", "build", "--offline"] + (["--release"] if profile == "r" else [])
        rc, out = run(cmd, cwd=bd, timeout=1200, env={"RUSTFLAGS": "--cfg %s" % GUARD})
        binp = os.path.join(bd, "target", "release" if profile == "r" else "debug", "harness")
        if rc != 0 or not os.path.exists(binp):
            errs = "\n".join(l for l in out.splitlines() if l.startswith("error") or "-->" in l)[:3000]
            return None, errs or out[-3000:]
        return binp, ""

LINE = re.compile(r"^(\d+) (\S+) (\S+) r=(.*?) \| (.*?) \| a=\[(.*?)\] \| e=\[(.*?)\](?: \| M=\[(.*?)\])?$")

def parse_line(l):
    m = LINE.match(l)
    if not m:
        return None
    return {"k": int(m.group(1)), "op": m.group(2), "out": m.group(3), "ret": m.group(4), "state": m.group(5),
            "alloc": m.group(6), "elems": m.group(7), "mon": [x for x in (m.group(8) or "").split(",") if x], "raw": l}

def hid(line):
    t = line.split()
    return t[1] if len(t) > 1 else "?"

def header(line):
    h = {}
    for tok in line.split("::")[0].split()[2:]:
        if "=" in tok:
            k, v = tok.split("=", 1)
            h[k] = v
    return h

def _parse_output(out):
    """-> dict id -> list of raw lines (complete histories), and the id of an unfinished one"""
    res, cur, curid = {}, None, None
    for l in out.splitlines():
        if l.startswith("BEGIN "):
            curid, cur = l[6:].strip(), []
        elif l == "DONE":
            if curid is not None:
                res[curid] = cur
            curid, cur = None, None
        elif cur is not None and not l.startswith("ALLOCFAIL "):
            cur.append(l)
    return res, curid, cur

def run_batch(binp, lines, timeout=300):
    """run histories in one process; a crash is attributed to the history announced last and the
    rest of the batch is resumed.  returns dict id -> {"lines": [...], "fate": "done"|"signal N"|"timeout"|"exit N"}"""
    results = {}
    todo = list(lines)
    tmpd = os.path.join(CACHE, "tmp")
    os.makedirs(tmpd, exist_ok=True)
    rounds = 0
    while todo and rounds < 200:
        rounds += 1
        f = os.path.join(tmpd, "batch_%d_%d.hist" % (os.getpid(), rounds))
        with open(f, "w") as fh:
            fh.write("\n".join(todo) + "\n")
        try:
            p = subprocess.run([binp, "run", f], stdout=subprocess.PIPE, stderr=subprocess.DEVNULL, timeout=timeout,
                               env=dict(os.environ, RUST_BACKTRACE="0"))
            out, rc = p.stdout.decode("utf8", "replace"), p.returncode
        except subprocess.TimeoutExpired as ex:
            out, rc = (ex.stdout or b"").decode("utf8", "replace"), "timeout"
        os.remove(f)
        done, curid, cur = _parse_output(out)
        for i, l in done.items():
            results[i] = {"lines": l, "fate": "done"}
        if curid is None and rc == 0:
            break
        ids = [hid(l) for l in todo]
        if curid is not None and curid in ids:
            fate = "timeout" if rc == "timeout" else ("signal %d" % -rc if isinstance(rc, int) and rc < 0 else "exit %s" % rc)
            results[curid] = {"lines": cur or [], "fate": fate}
            todo = todo[ids.index(curid) + 1:]
        else:
            break
    return results

def run_child(binp, line, timeout=20, _retry=True):
    """one history in its own process.  A timeout is only believed after a second run with four times the
    limit also times out (a loaded machine must not turn a slow run into a `hang`)."""
    r = _run_child_once(binp, line, timeout)
    if r["fate"] == "timeout" and _retry:
        r2 = _run_child_once(binp, line, timeout * 4)
        r2["retried_after_timeout"] = True
        return r2
    return r

def _run_child_once(binp, line, timeout):
    try:
        p = subprocess.run([binp, "one", line], stdout=subprocess.PIPE, stderr=subprocess.PIPE, timeout=timeout,
                           env=dict(os.environ, RUST_BACKTRACE="0"))
        out, rc, err = p.stdout.decode("utf8", "replace"), p.returncode, p.stderr.decode("utf8", "replace")
    except subprocess.TimeoutExpired as ex:
        out, rc, err = (ex.stdout or b"").decode("utf8", "replace"), "timeout", ""
    raw = [l for l in out.splitlines() if l != "DONE"]
    lines = [l for l in raw if not l.startswith("ALLOCFAIL ")]
    complete = out.rstrip().endswith("DONE")
    if rc == "timeout":
        fate = "timeout"
    elif complete and rc == 0:
        fate = "done"
    elif isinstance(rc, int) and rc < 0:
        fate = "signal %d" % -rc
    else:
        fate = "exit %s" % rc
    m = re.search(r"memory allocation of (\d+) bytes failed", err)
    return {"lines": lines, "raw_lines": raw, "fate": fate, "alloc_error": int(m.group(1)) if m else None, "stderr": err[-400:]}
